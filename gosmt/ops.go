package main

import (
	"fmt"
	"go/token"
	"go/types"
	"math"
	"unicode/utf8"

	"golang.org/x/tools/go/ssa"
)

// ---- memory ----

func (in *Interp) load(pv Value) Value {
	return in.mapAlts(pv, func(g *Term, v Value) Value {
		p, ok := v.(Ptr)
		if !ok {
			if _, isOp := v.(Opaque); isOp && in.lenient > 0 {
				return v
			}
			abortf("load through %s at %s", in.show(v), in.where())
		}
		if p.p == nil {
			in.rtCheck(g, "invalid memory address or nil pointer dereference")
			return nil
		}
		return copyVal(*p.p)
	})
}

func (in *Interp) store(pv Value, v Value, g *Term) {
	for _, a := range in.alts(pv) {
		c := in.ts.And(g, a.g)
		if c.IsFalse() {
			continue
		}
		p, ok := a.v.(Ptr)
		if !ok {
			if _, isOp := a.v.(Opaque); isOp && in.lenient > 0 {
				continue
			}
			abortf("store through %s at %s", in.show(a.v), in.where())
		}
		if p.p == nil {
			in.rtCheck(a.g, "invalid memory address or nil pointer dereference")
			continue
		}
		if c.IsTrue() || in.isKnown(c) {
			in.storeInto(p.p, v)
		} else {
			in.storeInto(p.p, in.merge(c, v, *p.p))
		}
	}
}

func (in *Interp) storeInto(p *Value, v Value) {
	switch cur := (*p).(type) {
	case Struct:
		if nv, ok := v.(Struct); ok && len(nv) == len(cur) {
			for i := range cur {
				in.storeInto(&cur[i], nv[i])
			}
			return
		}
	case Array:
		if nv, ok := v.(Array); ok && len(nv) == len(cur) {
			for i := range cur {
				in.storeInto(&cur[i], nv[i])
			}
			return
		}
	}
	in.set(p, copyVal(v))
}

// ---- unary / binary ----

func (in *Interp) unop(f *Frame, ins *ssa.UnOp) Value {
	x := in.get(f, ins.X)
	ts := in.ts
	switch ins.Op {
	case token.MUL:
		v := in.load(x)
		if v == nil {
			return in.zero(ins.Type()) // only on paths where the dereference already failed its check
		}
		return v
	case token.ARROW:
		return in.chanRecv(f, x, ins.CommaOk, ins.X.Type().Underlying().(*types.Chan).Elem())
	case token.NOT:
		return ts.Not(x.(*Term))
	case token.SUB:
		switch x := x.(type) {
		case *Term:
			return ts.Un(OpNeg, x)
		case Float:
			return Float{-x.f}
		}
	case token.XOR:
		return ts.Un(OpBNot, x.(*Term))
	}
	abortf("unsupported unary op %s on %s", ins.Op, in.show(x))
	return nil
}

func (in *Interp) binop(op token.Token, t types.Type, x, y Value, yt types.Type) Value {
	ts := in.ts
	if _, ok := x.(Opaque); ok && in.lenient > 0 {
		return x
	}
	if _, ok := y.(Opaque); ok && in.lenient > 0 {
		return y
	}
	switch op {
	case token.EQL:
		return in.equal(t, x, y)
	case token.NEQ:
		return ts.Not(in.equal(t, x, y))
	}
	switch a := x.(type) {
	case *Term:
		b, ok := y.(*Term)
		if !ok {
			abortf("binop %s: mixed operands %s %s", op, in.show(x), in.show(y))
		}
		if a.w == 0 {
			abortf("binop %s on bool", op)
		}
		_, signed, _ := intWidth(t)
		switch op {
		case token.ADD:
			return ts.Bin(OpAdd, a, b)
		case token.SUB:
			return ts.Bin(OpSub, a, b)
		case token.MUL:
			return ts.Bin(OpMul, a, b)
		case token.QUO, token.REM:
			in.rtCheck(ts.Eq(b, ts.BV(b.w, 0)), "integer divide by zero")
			if signed {
				if op == token.QUO {
					return ts.Bin(OpSDiv, a, b)
				}
				return ts.Bin(OpSRem, a, b)
			}
			if op == token.QUO {
				return ts.Bin(OpUDiv, a, b)
			}
			return ts.Bin(OpURem, a, b)
		case token.AND:
			return ts.Bin(OpBAnd, a, b)
		case token.OR:
			return ts.Bin(OpBOr, a, b)
		case token.XOR:
			return ts.Bin(OpBXor, a, b)
		case token.AND_NOT:
			return ts.Bin(OpBAnd, a, ts.Un(OpBNot, b))
		case token.SHL, token.SHR:
			_, ysigned, _ := intWidth(yt)
			if ysigned {
				in.rtCheck(ts.Cmp(OpSlt, b, ts.BV(b.w, 0)), "negative shift amount")
			}
			// normalise the count to a's width, saturating
			var cnt *Term
			if b.w > a.w {
				big := ts.Cmp(OpUle, ts.BV(b.w, uint64(a.w)), b)
				cnt = ts.Ite(big, ts.BV(a.w, uint64(a.w)), ts.Extract(b, a.w-1, 0))
			} else {
				cnt = ts.Zext(b, a.w)
			}
			if op == token.SHL {
				return ts.Bin(OpShl, a, cnt)
			}
			if signed {
				return ts.Bin(OpAshr, a, cnt)
			}
			return ts.Bin(OpLshr, a, cnt)
		case token.LSS:
			if signed {
				return ts.Cmp(OpSlt, a, b)
			}
			return ts.Cmp(OpUlt, a, b)
		case token.LEQ:
			if signed {
				return ts.Cmp(OpSle, a, b)
			}
			return ts.Cmp(OpUle, a, b)
		case token.GTR:
			if signed {
				return ts.Cmp(OpSlt, b, a)
			}
			return ts.Cmp(OpUlt, b, a)
		case token.GEQ:
			if signed {
				return ts.Cmp(OpSle, b, a)
			}
			return ts.Cmp(OpUle, b, a)
		}
	case Float:
		b, ok := y.(Float)
		if !ok {
			abortf("float binop with %s", in.show(y))
		}
		is32 := false
		if bt, ok := t.Underlying().(*types.Basic); ok && bt.Kind() == types.Float32 {
			is32 = true
		}
		r32 := func(v float64) Float {
			if is32 {
				return Float{float64(float32(v))}
			}
			return Float{v}
		}
		switch op {
		case token.ADD:
			return r32(a.f + b.f)
		case token.SUB:
			return r32(a.f - b.f)
		case token.MUL:
			return r32(a.f * b.f)
		case token.QUO:
			return r32(a.f / b.f)
		case token.LSS:
			return ts.Bool(a.f < b.f)
		case token.LEQ:
			return ts.Bool(a.f <= b.f)
		case token.GTR:
			return ts.Bool(a.f > b.f)
		case token.GEQ:
			return ts.Bool(a.f >= b.f)
		}
	case *Str:
		b, ok := y.(*Str)
		if !ok {
			abortf("string binop with %s", in.show(y))
		}
		switch op {
		case token.ADD:
			return in.strConcat(a, b)
		case token.LSS:
			return in.strLess(a, b)
		case token.GTR:
			return in.strLess(b, a)
		case token.LEQ:
			return ts.Not(in.strLess(b, a))
		case token.GEQ:
			return ts.Not(in.strLess(a, b))
		}
	}
	abortf("unsupported binop %s on %s, %s at %s", op, in.show(x), in.show(y), in.where())
	return nil
}

// equal implements == for every comparable Go type.
func (in *Interp) equal(t types.Type, x, y Value) *Term {
	ts := in.ts
	if ux, ok := x.(*Union); ok {
		r := ts.False
		for _, a := range ux.alts {
			r = ts.Or(r, ts.And(a.g, in.equal(t, a.v, y)))
		}
		return r
	}
	if uy, ok := y.(*Union); ok {
		r := ts.False
		for _, a := range uy.alts {
			r = ts.Or(r, ts.And(a.g, in.equal(t, x, a.v)))
		}
		return r
	}
	switch a := x.(type) {
	case *Term:
		if b, ok := y.(*Term); ok {
			return ts.Eq(a, b)
		}
	case Float:
		if b, ok := y.(Float); ok {
			return ts.Bool(a.f == b.f)
		}
	case *Str:
		if b, ok := y.(*Str); ok {
			return in.strEq(a, b)
		}
	case Ptr:
		if b, ok := y.(Ptr); ok {
			return ts.Bool(a.p == b.p)
		}
	case *SliceV: // only == nil
		if b, ok := y.(*SliceV); ok {
			if b.nilS {
				return ts.Bool(a.nilS)
			}
			if a.nilS {
				return ts.Bool(b.nilS)
			}
		}
		if _, ok := y.(Ptr); ok {
			return ts.Bool(a.nilS)
		}
	case *MapObj:
		switch b := y.(type) {
		case *MapObj:
			return ts.Bool(a == b)
		case Ptr:
			return ts.Bool(a == nil && b.p == nil)
		}
	case *ChanObj:
		if b, ok := y.(*ChanObj); ok {
			return ts.Bool(a == b)
		}
	case *Closure:
		switch b := y.(type) {
		case *Closure:
			if a == nil || b == nil {
				return ts.Bool(a == nil && b == nil)
			}
		case Ptr:
			return ts.Bool(a == nil)
		}
	case *ssa.Function:
		switch b := y.(type) {
		case *Closure:
			if b == nil {
				return ts.False
			}
		}
	case Iface:
		b, ok := y.(Iface)
		if !ok {
			if p, isP := y.(Ptr); isP && p.p == nil {
				return ts.Bool(a.t == nil)
			}
			break
		}
		if a.t == nil || b.t == nil {
			return ts.Bool(a.t == nil && b.t == nil)
		}
		if isPseudoType(a.t) || isPseudoType(b.t) {
			return ts.Bool(a.t == b.t)
		}
		if !types.Identical(a.t, b.t) {
			return ts.False
		}
		if !types.Comparable(a.t) {
			in.rtCheck(ts.True, "comparing uncomparable type "+a.t.String())
			return ts.False
		}
		return in.equal(a.t, a.v, b.v)
	case Struct:
		b, ok := y.(Struct)
		if ok && len(a) == len(b) {
			st := t.Underlying().(*types.Struct)
			r := ts.True
			for i := range a {
				if st.Field(i).Name() == "_" {
					continue
				}
				r = ts.And(r, in.equal(st.Field(i).Type(), a[i], b[i]))
			}
			return r
		}
	case Array:
		b, ok := y.(Array)
		if ok && len(a) == len(b) {
			et := t.Underlying().(*types.Array).Elem()
			r := ts.True
			for i := range a {
				r = ts.And(r, in.equal(et, a[i], b[i]))
			}
			return r
		}
	}
	abortf("unsupported comparison of %s and %s (type %s) at %s", in.show(x), in.show(y), t, in.where())
	return nil
}

// ---- conversions ----

func isString(t types.Type) bool {
	b, ok := t.Underlying().(*types.Basic)
	return ok && b.Info()&types.IsString != 0
}

func isFloat(t types.Type) bool {
	b, ok := t.Underlying().(*types.Basic)
	return ok && b.Info()&types.IsFloat != 0
}

func (in *Interp) convert(dst, src types.Type, x Value) Value {
	ts := in.ts
	if _, ok := x.(Opaque); ok && in.lenient > 0 {
		return x
	}
	if u, ok := x.(*Union); ok {
		return in.mapAlts(u, func(_ *Term, v Value) Value { return in.convert(dst, src, v) })
	}
	ud, us := dst.Underlying(), src.Underlying()
	if tp, ok := ud.(*types.Interface); ok && tp != nil {
		abortf("conversion to type-parameter type")
	}
	// pointer / unsafe
	switch ud.(type) {
	case *types.Pointer:
		return x
	}
	if b, ok := ud.(*types.Basic); ok && b.Kind() == types.UnsafePointer {
		return x
	}
	if dw, _, ok := intWidth(dst); ok {
		switch v := x.(type) {
		case *Term:
			_, ssigned, ok := intWidth(src)
			if !ok {
				abortf("convert to int from %s", src)
			}
			if dw <= v.w {
				return ts.Extract(v, dw-1, 0)
			}
			if ssigned {
				return ts.Sext(v, dw)
			}
			return ts.Zext(v, dw)
		case Float:
			_, dsigned, _ := intWidth(dst)
			if dsigned {
				return ts.BV(dw, uint64(int64(v.f)))
			}
			return ts.BV(dw, uint64(v.f))
		case Ptr: // uintptr(unsafe.Pointer)
			if v.p == nil {
				return ts.BV(dw, 0)
			}
			abortf("pointer to integer conversion")
		}
	}
	if isFloat(dst) {
		is32 := ud.(*types.Basic).Kind() == types.Float32
		var r float64
		switch v := x.(type) {
		case Float:
			r = v.f
		case *Term:
			if !v.IsConst() {
				abortf("symbolic integer to float conversion at %s", in.where())
			}
			_, ssigned, _ := intWidth(src)
			if ssigned {
				r = float64(sext(v.w, v.val))
			} else {
				r = float64(v.val)
			}
		}
		if is32 {
			r = float64(float32(r))
		}
		return Float{r}
	}
	if isString(dst) {
		switch v := x.(type) {
		case *Str:
			return v
		case *Term: // string(rune)
			if !v.IsConst() {
				return in.runeToStr(v, src)
			}
			_, ssigned, _ := intWidth(src)
			var r rune
			if ssigned {
				sv := sext(v.w, v.val)
				if sv < 0 || sv > utf8.MaxRune {
					r = utf8.RuneError
				} else {
					r = rune(sv)
				}
			} else if v.val > utf8.MaxRune {
				r = utf8.RuneError
			} else {
				r = rune(v.val)
			}
			return in.concStr(string(r))
		case *SliceV:
			et := us.(*types.Slice).Elem().Underlying().(*types.Basic)
			if et.Kind() == types.Uint8 {
				return in.bytesToStr(v)
			}
			// []rune
			if !v.n.IsConst() {
				abortf("symbolic-length []rune to string")
			}
			s := in.concStr("")
			for i := 0; i < int(v.n.val); i++ {
				s = in.strConcat(s, in.convert(dst, types.Typ[types.Rune], v.a[v.off+i]).(*Str))
			}
			return s
		}
	}
	if sl, ok := ud.(*types.Slice); ok {
		if s, ok := x.(*Str); ok {
			et := sl.Elem().Underlying().(*types.Basic)
			if et.Kind() == types.Uint8 {
				return in.strToBytes(s)
			}
			// []rune(s)
			if !s.conc {
				abortf("[]rune of symbolic string")
			}
			rs := []rune(s.s)
			a := make([]Value, len(rs))
			for i, r := range rs {
				a[i] = ts.BV(32, uint64(r))
			}
			return &SliceV{a: a, n: ts.BV(64, uint64(len(rs))), cap: len(rs)}
		}
		return x
	}
	switch ud.(type) {
	case *types.Struct, *types.Array, *types.Map, *types.Chan, *types.Signature, *types.Interface:
		return x
	}
	if b, ok := ud.(*types.Basic); ok && b.Kind() == types.Bool {
		return x
	}
	abortf("unsupported conversion %s -> %s of %s", src, dst, in.show(x))
	return nil
}

func (in *Interp) runeToStr(v *Term, src types.Type) *Str {
	ts := in.ts
	// general symbolic rune encoding: 1..4 bytes
	r := v
	_, signed, _ := intWidth(src)
	if r.w < 32 {
		if signed {
			r = ts.Sext(r, 32)
		} else {
			r = ts.Zext(r, 32)
		}
	} else if r.w > 32 {
		big := ts.Cmp(OpUlt, ts.BV(r.w, 0x10FFFF), r)
		r = ts.Ite(big, ts.BV(32, 0xFFFD), ts.Extract(r, 31, 0))
	}
	c := func(x uint64) *Term { return ts.BV(32, x) }
	invalid := ts.Or(ts.Cmp(OpUlt, c(0x10FFFF), r), ts.And(ts.Cmp(OpUle, c(0xD800), r), ts.Cmp(OpUle, r, c(0xDFFF))))
	r = ts.Ite(invalid, c(0xFFFD), r)
	is1 := ts.Cmp(OpUlt, r, c(0x80))
	is2 := ts.Cmp(OpUlt, r, c(0x800))
	is3 := ts.Cmp(OpUlt, r, c(0x10000))
	b8 := func(t *Term) *Term { return ts.Extract(t, 7, 0) }
	sh := func(n uint64) *Term { return ts.Bin(OpLshr, r, c(n)) }
	low6 := func(t *Term) *Term { return ts.Bin(OpBOr, ts.Bin(OpBAnd, b8(t), ts.BV(8, 0x3f)), ts.BV(8, 0x80)) }
	n := ts.Ite(is1, ts.BV(64, 1), ts.Ite(is2, ts.BV(64, 2), ts.Ite(is3, ts.BV(64, 3), ts.BV(64, 4))))
	b0 := ts.Ite(is1, b8(r), ts.Ite(is2, ts.Bin(OpBOr, b8(sh(6)), ts.BV(8, 0xC0)), ts.Ite(is3, ts.Bin(OpBOr, b8(sh(12)), ts.BV(8, 0xE0)), ts.Bin(OpBOr, b8(sh(18)), ts.BV(8, 0xF0)))))
	b1 := ts.Ite(is2, low6(r), ts.Ite(is3, low6(sh(6)), low6(sh(12))))
	b2 := ts.Ite(is3, low6(r), low6(sh(6)))
	b3 := low6(r)
	return in.normStr(n, []*Term{b0, b1, b2, b3})
}

func (in *Interp) bytesToStr(v *SliceV) *Str {
	if v.nilS {
		return in.concStr("")
	}
	max := in.maxLen(v)
	b := make([]*Term, max)
	for i := 0; i < max; i++ {
		e := in.elem(v, i)
		if e == nil {
			e = in.ts.BV(8, 0) // never-written slot beyond every feasible length
		}
		t, ok := e.(*Term)
		if !ok {
			abortf("[]byte element is %s", in.show(e))
		}
		b[i] = t
	}
	return in.normStr(v.n, b)
}

func (in *Interp) strToBytes(s *Str) *SliceV {
	b := in.strBytes(s)
	a := make([]Value, len(b))
	for i := range b {
		a[i] = b[i]
	}
	return &SliceV{a: a, n: in.strLen(s), cap: len(a)}
}

// maxLen is the largest length the slice can have.
func (in *Interp) maxLen(v *SliceV) int {
	if v.nilS {
		return 0
	}
	if v.n.IsConst() {
		n := int(v.n.val)
		if n > v.cap {
			n = v.cap
		}
		return n
	}
	return v.cap
}

// ---- slices, indexing ----

func (in *Interp) sliceOp(f *Frame, ins *ssa.Slice) Value {
	ts := in.ts
	x := in.get(f, ins.X)
	var lo, hi, max *Term
	if ins.Low != nil {
		lo = in.getTerm(f, ins.Low)
	}
	if ins.High != nil {
		hi = in.getTerm(f, ins.High)
	}
	if ins.Max != nil {
		max = in.getTerm(f, ins.Max)
	}
	if lo == nil {
		lo = ts.BV(64, 0)
	}
	return in.mapAlts(x, func(g *Term, v Value) Value {
		switch v := v.(type) {
		case *Str:
			n := in.strLen(v)
			h := hi
			if h == nil {
				h = n
			}
			in.rtCheck(ts.And(g, ts.Or(ts.Cmp(OpUlt, n, h), ts.Cmp(OpUlt, h, lo))), "slice bounds out of range (string)")
			return in.strSlice(v, lo, h)
		case Ptr: // *array
			if v.p == nil {
				in.rtCheck(g, "nil pointer dereference (slice of nil *array)")
				return &SliceV{nilS: true, n: ts.BV(64, 0)}
			}
			arr := (*v.p).(Array)
			sv := &SliceV{a: arr, off: 0, n: ts.BV(64, uint64(len(arr))), cap: len(arr)}
			return in.sliceSlice(sv, lo, hi, max, g)
		case *SliceV:
			return in.sliceSlice(v, lo, hi, max, g)
		}
		abortf("slice of %s", in.show(v))
		return nil
	})
}

func (in *Interp) sliceSlice(v *SliceV, lo, hi, max *Term, g *Term) Value {
	ts := in.ts
	capT := ts.BV(64, uint64(v.cap))
	if v.nilS {
		capT = ts.BV(64, 0)
	}
	h := hi
	if h == nil {
		h = v.n
	}
	m := max
	if m == nil {
		m = capT
	}
	bad := ts.Or(ts.Cmp(OpUlt, capT, m), ts.Cmp(OpUlt, m, h), ts.Cmp(OpUlt, h, lo))
	in.rtCheck(ts.And(g, bad), "slice bounds out of range")
	if v.nilS {
		return v
	}
	if !m.IsConst() {
		abortf("symbolic slice capacity")
	}
	if lo.IsConst() {
		l := int(lo.val)
		if l > v.cap {
			l = v.cap
		}
		newcap := int(m.val) - l
		if newcap < 0 {
			newcap = 0
		}
		return &SliceV{a: v.a, off: v.off + l, soff: v.soff, n: ts.Bin(OpSub, h, lo), cap: newcap}
	}
	// symbolic low bound: keep the backing array, add a symbolic offset
	so := lo
	if v.soff != nil {
		so = ts.Bin(OpAdd, v.soff, lo)
	}
	return &SliceV{a: v.a, off: v.off, soff: so, n: ts.Bin(OpSub, h, lo), cap: v.cap}
}

// elemPtr addresses element k (concrete) of sl without a bounds check.
func (in *Interp) elemPtr(sl *SliceV, k int) Value {
	if sl.soff == nil {
		if sl.off+k >= len(sl.a) {
			return Ptr{}
		}
		return Ptr{&sl.a[sl.off+k]}
	}
	ts := in.ts
	pos := ts.Bin(OpAdd, sl.soff, ts.BV(64, uint64(sl.off+k)))
	if pos.IsConst() {
		if pos.val >= uint64(len(sl.a)) {
			return Ptr{}
		}
		return Ptr{&sl.a[pos.val]}
	}
	var alts []Alt
	for p := sl.off + k; p < len(sl.a); p++ {
		c := ts.Eq(pos, ts.BV(64, uint64(p)))
		if c.IsFalse() {
			continue
		}
		alts = append(alts, Alt{c, Ptr{&sl.a[p]}})
	}
	switch len(alts) {
	case 0:
		return Ptr{}
	case 1:
		return alts[0].v
	}
	if len(alts) > in.maxUnion {
		abortf("slice with symbolic offset over %d elements", len(alts))
	}
	return &Union{alts: alts}
}

// elem reads element k of sl (zero/undefined outside the backing array).
func (in *Interp) elem(sl *SliceV, k int) Value {
	if sl.soff == nil {
		return sl.a[sl.off+k]
	}
	var r Value
	for _, a := range in.alts(in.elemPtr(sl, k)) {
		p := a.v.(Ptr)
		if p.p == nil {
			continue
		}
		if r == nil {
			r = *p.p
		} else {
			r = in.merge(a.g, *p.p, r)
		}
	}
	return r
}

func (in *Interp) elemPtrs(base []Value, off int, max int, idx *Term, n *Term, g *Term) Value {
	ts := in.ts
	in.rtCheck(ts.And(g, ts.Cmp(OpUle, n, idx)), "index out of range")
	if idx.IsConst() {
		if idx.val >= uint64(max) {
			return Ptr{}
		}
		return Ptr{&base[off+int(idx.val)]}
	}
	var alts []Alt
	for k := 0; k < max; k++ {
		c := ts.Eq(idx, ts.BV(64, uint64(k)))
		if c.IsFalse() {
			continue
		}
		alts = append(alts, Alt{c, Ptr{&base[off+k]}})
	}
	if len(alts) == 0 {
		return Ptr{}
	}
	if len(alts) == 1 {
		return alts[0].v
	}
	if len(alts) > 4096 {
		abortf("symbolic index over %d elements", len(alts))
	}
	return &Union{alts: alts}
}

func (in *Interp) indexAddr(f *Frame, ins *ssa.IndexAddr) Value {
	x := in.get(f, ins.X)
	idx := in.idx64(in.getTerm(f, ins.Index), ins.Index.Type())
	return in.mapAlts(x, func(g *Term, v Value) Value {
		switch v := v.(type) {
		case Ptr:
			if v.p == nil {
				in.rtCheck(g, "nil pointer dereference (index of nil *array)")
				return Ptr{}
			}
			arr := (*v.p).(Array)
			return in.elemPtrs(arr, 0, len(arr), idx, in.ts.BV(64, uint64(len(arr))), g)
		case *SliceV:
			if v.soff != nil {
				in.rtCheck(in.ts.And(g, in.ts.Cmp(OpUle, v.n, idx)), "index out of range")
				pos := in.ts.Bin(OpAdd, v.soff, idx)
				return in.elemPtrs(v.a, v.off, len(v.a)-v.off, pos, in.ts.BV(64, uint64(len(v.a)-v.off)), in.ts.False)
			}
			return in.elemPtrs(v.a, v.off, in.maxLen(v), idx, v.n, g)
		case Opaque:
			if in.lenient > 0 {
				return v
			}
		}
		abortf("IndexAddr on %s", in.show(v))
		return nil
	})
}

func (in *Interp) idx64(t *Term, typ types.Type) *Term {
	if t.w == 64 {
		return t
	}
	_, signed, _ := intWidth(typ)
	if signed {
		return in.ts.Sext(t, 64)
	}
	return in.ts.Zext(t, 64)
}

func (in *Interp) indexOp(f *Frame, ins *ssa.Index) Value {
	ts := in.ts
	x := in.get(f, ins.X)
	idx := in.idx64(in.getTerm(f, ins.Index), ins.Index.Type())
	switch v := x.(type) {
	case *Str:
		return in.strIndex(v, idx)
	case Array:
		in.rtCheck(ts.Cmp(OpUle, ts.BV(64, uint64(len(v))), idx), "index out of range")
		if idx.IsConst() {
			if idx.val >= uint64(len(v)) {
				return in.zero(ins.Type())
			}
			return copyVal(v[idx.val])
		}
		var r Value
		for k := len(v) - 1; k >= 0; k-- {
			if r == nil {
				r = v[k]
			} else {
				r = in.merge(ts.Eq(idx, ts.BV(64, uint64(k))), v[k], r)
			}
		}
		return copyVal(r)
	}
	abortf("Index on %s", in.show(x))
	return nil
}

func (in *Interp) strIndex(s *Str, idx *Term) Value {
	ts := in.ts
	n := in.strLen(s)
	in.rtCheck(ts.Cmp(OpUle, n, idx), "index out of range (string)")
	if s.conc && idx.IsConst() {
		if idx.val >= uint64(len(s.s)) {
			return ts.BV(8, 0)
		}
		return ts.BV(8, uint64(s.s[idx.val]))
	}
	return in.selectByte(in.strBytes(s), idx)
}

// ---- maps ----

// keyString returns a canonical string for a fully concrete key.
func (in *Interp) keyString(v Value) (string, bool) {
	switch v := v.(type) {
	case *Term:
		if v.IsConst() {
			return fmt.Sprintf("i%d:%d", v.w, v.val), true
		}
	case *Str:
		if v.conc {
			return "s" + fmt.Sprint(len(v.s)) + ":" + v.s, true
		}
	case Float:
		return fmt.Sprintf("f%v", math.Float64bits(v.f)), true
	case Ptr:
		return fmt.Sprintf("p%p", v.p), true
	case *ChanObj:
		return fmt.Sprintf("c%p", v), true
	case Iface:
		if v.t == nil {
			return "nil", true
		}
		s, ok := in.keyString(v.v)
		return "I" + v.t.String() + "|" + s, ok
	case Struct:
		r := "{"
		for _, f := range v {
			s, ok := in.keyString(f)
			if !ok {
				return "", false
			}
			r += s + ","
		}
		return r + "}", true
	case Array:
		r := "["
		for _, f := range v {
			s, ok := in.keyString(f)
			if !ok {
				return "", false
			}
			r += s + ","
		}
		return r + "]", true
	}
	return "", false
}

func (in *Interp) lookup(f *Frame, ins *ssa.Lookup) Value {
	ts := in.ts
	x := in.get(f, ins.X)
	k := in.get(f, ins.Index)
	if s, ok := x.(*Str); ok {
		return in.strIndex(s, in.idx64(k.(*Term), ins.Index.Type()))
	}
	mt := ins.X.Type().Underlying().(*types.Map)
	r := in.mapAlts(x, func(g *Term, mv Value) Value {
		m, ok := mv.(*MapObj)
		if !ok {
			if _, isOp := mv.(Opaque); isOp && in.lenient > 0 {
				return mv
			}
			abortf("lookup in %s", in.show(mv))
		}
		val, found := in.mapGet(m, mt, k)
		if ins.CommaOk {
			return Tuple{val, found}
		}
		return val
	})
	_ = ts
	return r
}

func (in *Interp) mapGet(m *MapObj, mt *types.Map, k Value) (Value, *Term) {
	ts := in.ts
	zero := in.zero(mt.Elem())
	if m == nil {
		return zero, ts.False
	}
	if ks, ok := in.keyString(k); ok && !m.symKeys {
		if i, ok := m.index[ks]; ok {
			e := m.entries[i]
			if e.present.IsTrue() {
				return copyVal(e.v), ts.True
			}
			return in.merge(e.present, e.v, zero), e.present
		}
		return zero, ts.False
	}
	var val Value = zero
	found := ts.False
	for i := len(m.entries) - 1; i >= 0; i-- {
		e := m.entries[i]
		c := ts.And(e.present, in.equal(mt.Key(), e.k, k))
		if c.IsFalse() {
			continue
		}
		val = in.merge(c, e.v, val)
		found = ts.Or(found, c)
	}
	return copyVal(val), found
}

func (in *Interp) mapUpdate(mv Value, k, v Value, g *Term) {
	ts := in.ts
	for _, a := range in.alts(mv) {
		c := ts.And(g, a.g)
		if c.IsFalse() {
			continue
		}
		m, ok := a.v.(*MapObj)
		if !ok {
			if _, isOp := a.v.(Opaque); isOp && in.lenient > 0 {
				continue
			}
			abortf("map update on %s", in.show(a.v))
		}
		if m == nil {
			in.withGuard(c, func() { in.rtCheck(ts.True, "assignment to entry in nil map") })
			continue
		}
		in.mapSet(m, k, v, c)
	}
}

func (in *Interp) mapSet(m *MapObj, k, v Value, c *Term) {
	ts := in.ts
	v = copyVal(v)
	ks, conc := in.keyString(k)
	if conc && !m.symKeys {
		if i, ok := m.index[ks]; ok {
			e := m.entries[i]
			old := *e
			in.onUndo(func() { *e = old })
			e.v = in.merge(c, v, e.v)
			e.present = ts.Or(e.present, c)
			return
		}
		m.entries = append(m.entries, &mapEntry{k: k, v: v, present: c})
		m.index[ks] = len(m.entries) - 1
		in.onUndo(func() { m.entries = m.entries[:len(m.entries)-1]; delete(m.index, ks) })
		return
	}
	// symbolic key (or map already has symbolic keys): guarded update of matching entries + new entry
	if !conc && !m.symKeys {
		m.symKeys = true
		in.onUndo(func() { m.symKeys = false })
	}
	hit := ts.False
	for _, e := range m.entries {
		eq := ts.And(e.present, in.equal(m.typ.Key(), e.k, k))
		if eq.IsFalse() {
			continue
		}
		e := e
		old := *e
		in.onUndo(func() { *e = old })
		e.v = in.merge(ts.And(c, eq), v, e.v)
		hit = ts.Or(hit, eq)
	}
	np := ts.And(c, ts.Not(hit))
	if !np.IsFalse() {
		m.entries = append(m.entries, &mapEntry{k: k, v: v, present: np})
		if conc {
			m.index[ks] = len(m.entries) - 1
		}
		in.onUndo(func() {
			m.entries = m.entries[:len(m.entries)-1]
			if conc {
				delete(m.index, ks)
			}
		})
	}
}

func (in *Interp) mapDelete(m *MapObj, k Value, c *Term) {
	ts := in.ts
	if m == nil {
		return
	}
	if ks, conc := in.keyString(k); conc && !m.symKeys {
		if i, ok := m.index[ks]; ok {
			e := m.entries[i]
			old := *e
			in.onUndo(func() { *e = old })
			e.present = ts.And(e.present, ts.Not(c))
		}
		return
	}
	for _, e := range m.entries {
		eq := ts.And(c, e.present, in.equal(m.typ.Key(), e.k, k))
		if eq.IsFalse() {
			continue
		}
		e := e
		old := *e
		in.onUndo(func() { *e = old })
		e.present = ts.And(e.present, ts.Not(eq))
	}
}

func (in *Interp) mapLen(m *MapObj) *Term {
	ts := in.ts
	n := ts.BV(64, 0)
	if m == nil {
		return n
	}
	for _, e := range m.entries {
		n = ts.Bin(OpAdd, n, ts.Ite(e.present, ts.BV(64, 1), ts.BV(64, 0)))
	}
	return n
}

// ---- type assertions ----

func (in *Interp) typeAssert(ins *ssa.TypeAssert, x Value) Value {
	ts := in.ts
	if _, ok := x.(Opaque); ok && in.lenient > 0 {
		if ins.CommaOk {
			return Tuple{x, ts.False}
		}
		return x
	}
	at := ins.AssertedType
	_, toIface := at.Underlying().(*types.Interface)
	zero := in.zero(at)
	var val Value
	okT := ts.False
	first := true
	for _, a := range in.alts(x) {
		itf, isI := a.v.(Iface)
		if !isI {
			abortf("type assertion on %s", in.show(a.v))
		}
		match := false
		var v Value
		if nt, isNoop := itf.t.(*noopType); isNoop {
			if toIface && types.Identical(nt.iface, at) {
				match = true
				v = itf
			}
		} else if _, isRefl := itf.t.(*reflType); isRefl {
			if toIface {
				match = true
				v = itf
			}
		} else if itf.t != nil {
			if toIface {
				if types.Implements(itf.t, at.Underlying().(*types.Interface)) {
					match = true
					v = itf
				}
			} else if types.Identical(itf.t, at) {
				match = true
				v = itf.v
			}
		}
		if !match {
			v = zero
		} else {
			okT = ts.Or(okT, a.g)
		}
		if first {
			val = v
			first = false
		} else {
			val = in.merge(a.g, v, val)
		}
	}
	if ins.CommaOk {
		return Tuple{val, okT}
	}
	in.rtCheck(ts.Not(okT), fmt.Sprintf("interface conversion: not %s", at))
	return val
}

// ---- range ----

type RangeIter struct {
	str  *Str
	pos  *Term
	m    *MapObj
	snap []*mapEntry
	i    int
}

func (in *Interp) rangeIter(x Value) Value {
	switch v := x.(type) {
	case *Str:
		return &RangeIter{str: v, pos: in.ts.BV(64, 0)}
	case *MapObj:
		it := &RangeIter{m: v}
		if v != nil {
			it.snap = append([]*mapEntry(nil), v.entries...)
		}
		return it
	case *Union:
		abortf("range over guarded union of maps")
	}
	abortf("range over %s", in.show(x))
	return nil
}

func (in *Interp) next(f *Frame, ins *ssa.Next) Value {
	ts := in.ts
	it := in.get(f, ins.Iter).(*RangeIter)
	if ins.IsString {
		s := it.str
		n := in.strLen(s)
		ok := ts.Cmp(OpUlt, it.pos, n)
		if ok.IsFalse() {
			return Tuple{ts.False, ts.BV(64, 0), ts.BV(32, 0)}
		}
		r, size := in.decodeRune(s, it.pos)
		key := it.pos
		old := it.pos
		in.onUndo(func() { it.pos = old })
		adv := ts.Bin(OpAdd, it.pos, size)
		it.pos = ts.Ite(ts.And(f.cur, ok), adv, it.pos)
		if in.isKnown(f.cur) {
			it.pos = ts.Ite(ok, adv, old)
		}
		return Tuple{ok, key, r}
	}
	// map
	for it.i < len(it.snap) {
		e := it.snap[it.i]
		oldi := it.i
		in.onUndo(func() { it.i = oldi })
		it.i++
		if e.present.IsFalse() {
			continue
		}
		if !e.present.IsTrue() {
			if !in.concretizeGuard() {
				break
			}
			if !in.decide(e.present) {
				continue
			}
		}
		return Tuple{ts.True, e.k, copyVal(e.v)}
	}
	mt := ins.Iter.(*ssa.Range).X.Type().Underlying().(*types.Map)
	return Tuple{ts.False, in.zero(mt.Key()), in.zero(mt.Elem())}
}

// decodeRune implements utf8.DecodeRuneInString(s[pos:]) for pos < len(s).
func (in *Interp) decodeRune(s *Str, pos *Term) (*Term, *Term) {
	ts := in.ts
	if s.conc && pos.IsConst() {
		if pos.val >= uint64(len(s.s)) {
			return ts.BV(32, 0xFFFD), ts.BV(64, 1)
		}
		r, sz := utf8.DecodeRuneInString(s.s[pos.val:])
		return ts.BV(32, uint64(r)), ts.BV(64, uint64(sz))
	}
	b := in.strBytes(s)
	n := in.strLen(s)
	at := func(k uint64) (*Term, *Term) { // byte and availability
		p := ts.Bin(OpAdd, pos, ts.BV(64, k))
		return in.selectByte(b, p), ts.Cmp(OpUlt, p, n)
	}
	b0, _ := at(0)
	c8 := func(x uint64) *Term { return ts.BV(8, x) }
	ascii := ts.Cmp(OpUlt, b0, c8(0x80))
	if ascii.IsTrue() {
		return ts.Zext(b0, 32), ts.BV(64, 1)
	}
	b1, a1 := at(1)
	b2, a2 := at(2)
	b3, a3 := at(3)
	between := func(x *Term, lo, hi uint64) *Term {
		return ts.And(ts.Cmp(OpUle, c8(lo), x), ts.Cmp(OpUle, x, c8(hi)))
	}
	cont := func(x *Term) *Term { return between(x, 0x80, 0xBF) }
	z := func(x *Term) *Term { return ts.Zext(x, 32) }
	shl := func(x *Term, k uint64) *Term { return ts.Bin(OpShl, x, ts.BV(32, k)) }
	and := func(x *Term, m uint64) *Term { return ts.Bin(OpBAnd, x, ts.BV(32, m)) }
	or := func(xs ...*Term) *Term {
		r := xs[0]
		for _, x := range xs[1:] {
			r = ts.Bin(OpBOr, r, x)
		}
		return r
	}
	// two-byte: C2..DF 80..BF
	ok2 := ts.And(between(b0, 0xC2, 0xDF), a1, cont(b1))
	r2 := or(shl(and(z(b0), 0x1F), 6), and(z(b1), 0x3F))
	// three-byte: E0 A0..BF ; E1..EC 80..BF ; ED 80..9F ; EE..EF 80..BF ; then cont
	sec3 := ts.Or(
		ts.And(ts.Eq(b0, c8(0xE0)), between(b1, 0xA0, 0xBF)),
		ts.And(between(b0, 0xE1, 0xEC), cont(b1)),
		ts.And(ts.Eq(b0, c8(0xED)), between(b1, 0x80, 0x9F)),
		ts.And(between(b0, 0xEE, 0xEF), cont(b1)))
	ok3 := ts.And(a1, a2, sec3, cont(b2))
	r3 := or(shl(and(z(b0), 0x0F), 12), shl(and(z(b1), 0x3F), 6), and(z(b2), 0x3F))
	// four-byte: F0 90..BF ; F1..F3 80..BF ; F4 80..8F
	sec4 := ts.Or(
		ts.And(ts.Eq(b0, c8(0xF0)), between(b1, 0x90, 0xBF)),
		ts.And(between(b0, 0xF1, 0xF3), cont(b1)),
		ts.And(ts.Eq(b0, c8(0xF4)), between(b1, 0x80, 0x8F)))
	ok4 := ts.And(a1, a2, a3, sec4, cont(b2), cont(b3))
	r4 := or(shl(and(z(b0), 0x07), 18), shl(and(z(b1), 0x3F), 12), shl(and(z(b2), 0x3F), 6), and(z(b3), 0x3F))
	rerr := ts.BV(32, 0xFFFD)
	r := ts.Ite(ascii, z(b0), ts.Ite(ok2, r2, ts.Ite(ok3, r3, ts.Ite(ok4, r4, rerr))))
	sz := ts.Ite(ascii, ts.BV(64, 1), ts.Ite(ok2, ts.BV(64, 2), ts.Ite(ok3, ts.BV(64, 3), ts.Ite(ok4, ts.BV(64, 4), ts.BV(64, 1)))))
	return r, sz
}

// dataPtr is the result of unsafe.SliceData / unsafe.StringData (only usable by unsafe.String / unsafe.Slice).
type dataPtr struct {
	sl *SliceV
	st *Str
}

// upperBound returns a syntactic upper bound (unsigned) of t.
func (in *Interp) upperBound(t *Term) uint64 {
	switch t.op {
	case OpConst:
		return t.val
	case OpVar:
		if b, ok := in.varBound[t]; ok {
			return b
		}
		return mask(t.w)
	case OpZext:
		return in.upperBound(t.args[0])
	case OpIte:
		a, b := in.upperBound(t.args[1]), in.upperBound(t.args[2])
		if a > b {
			return a
		}
		return b
	case OpAdd:
		if k := t.args[1]; k.op == OpConst && k.val>>(t.w-1) == 1 {
			return in.upperBound(t.args[0]) // x - |k|, no wrap assumed
		}
		a, b := in.upperBound(t.args[0]), in.upperBound(t.args[1])
		if a+b < a || a+b > mask(t.w) {
			return mask(t.w)
		}
		return a + b
	case OpSub:
		// x - k (printed as x + (-k)) or x - y: bounded by x when no wrap is assumed
		return in.upperBound(t.args[0])
	case OpExtract:
		u := in.upperBound(t.args[0])
		if u <= mask(t.w) && t.val&0xff == 0 {
			return u
		}
	case OpBAnd:
		a, b := in.upperBound(t.args[0]), in.upperBound(t.args[1])
		if a < b {
			return a
		}
		return b
	}
	return mask(t.w)
}

// ---- builtins ----

func (in *Interp) callBuiltin(fn *ssa.Builtin, args []Value, cc *ssa.CallCommon) Value {
	ts := in.ts
	g := in.guard()
	switch fn.Name() {
	case "len":
		return in.mapAlts(args[0], func(_ *Term, v Value) Value {
			switch v := v.(type) {
			case *Str:
				return in.strLen(v)
			case *SliceV:
				return v.n
			case Array:
				return ts.BV(64, uint64(len(v)))
			case Ptr:
				if v.p == nil {
					return ts.BV(64, 0)
				}
				return ts.BV(64, uint64(len((*v.p).(Array))))
			case *MapObj:
				return in.mapLen(v)
			case *ChanObj:
				return in.chanLen(v)
			}
			abortf("len of %s", in.show(v))
			return nil
		})
	case "cap":
		return in.mapAlts(args[0], func(_ *Term, v Value) Value {
			switch v := v.(type) {
			case *SliceV:
				if v.nilS {
					return ts.BV(64, 0)
				}
				return ts.BV(64, uint64(v.cap))
			case Array:
				return ts.BV(64, uint64(len(v)))
			case *ChanObj:
				if v == nil {
					return ts.BV(64, 0)
				}
				return ts.BV(64, uint64(v.capacity))
			}
			abortf("cap of %s", in.show(v))
			return nil
		})
	case "append":
		return in.appendOp(args[0], args[1], g, cc)
	case "copy":
		return in.copyOp(args[0], args[1], g)
	case "delete":
		for _, a := range in.alts(args[0]) {
			in.mapDelete(a.v.(*MapObj), args[1], ts.And(g, a.g))
		}
		return nil
	case "clear":
		switch v := args[0].(type) {
		case *MapObj:
			if v != nil {
				for _, e := range v.entries {
					e := e
					old := *e
					in.onUndo(func() { *e = old })
					e.present = ts.And(e.present, ts.Not(g))
				}
			}
		case *SliceV:
			if !v.nilS {
				et := cc.Args[0].Type().Underlying().(*types.Slice).Elem()
				for i := 0; i < in.maxLen(v); i++ {
					in.store(in.elemPtr(v, i), in.zero(et), in.ts.And(g, in.ts.Cmp(OpUlt, in.ts.BV(64, uint64(i)), v.n)))
				}
			}
		}
		return nil
	case "print", "println":
		return nil
	case "recover":
		// recover is called by a deferred function; its caller frame is the panicking one
		fr := in.cur.frame
		if fr != nil && fr.caller != nil && fr.caller.panicking != nil {
			p := fr.caller.panicking
			fr.caller.panicking = nil
			return p.v
		}
		return Iface{}
	case "min", "max":
		r := args[0]
		for _, a := range args[1:] {
			switch x := r.(type) {
			case *Term:
				t := cc.Args[0].Type()
				var lt Value
				if fn.Name() == "min" {
					lt = in.binop(token.LSS, t, a, x, t)
				} else {
					lt = in.binop(token.GTR, t, a, x, t)
				}
				r = ts.Ite(lt.(*Term), a.(*Term), x)
			case Float:
				if fn.Name() == "min" {
					r = Float{math.Min(x.f, a.(Float).f)}
				} else {
					r = Float{math.Max(x.f, a.(Float).f)}
				}
			case *Str:
				lt := in.strLess(a.(*Str), x)
				if fn.Name() == "max" {
					lt = in.strLess(x, a.(*Str))
				}
				r = in.merge(lt, a, x)
			}
		}
		return r
	case "close":
		in.chanClose(args[0])
		return nil
	case "SliceData":
		sl := args[0].(*SliceV)
		return dataPtr{sl: sl}
	case "StringData":
		return dataPtr{st: args[0].(*Str)}
	case "String":
		dp, ok := args[0].(dataPtr)
		n := in.idx64(args[1].(*Term), cc.Args[1].Type())
		if !ok {
			if p, isP := args[0].(Ptr); isP && p.p == nil {
				return in.concStr("")
			}
			abortf("unsafe.String on %s", in.show(args[0]))
		}
		if dp.st != nil {
			return in.strSlice(dp.st, ts.BV(64, 0), n)
		}
		if dp.sl.nilS {
			return in.concStr("")
		}
		return in.bytesToStr(&SliceV{a: dp.sl.a, off: dp.sl.off, soff: dp.sl.soff, n: n, cap: dp.sl.cap})
	case "Slice":
		dp, ok := args[0].(dataPtr)
		n := in.idx64(args[1].(*Term), cc.Args[1].Type())
		if !ok {
			abortf("unsafe.Slice on %s", in.show(args[0]))
		}
		if dp.st != nil {
			return in.strToBytes(in.strSlice(dp.st, ts.BV(64, 0), n))
		}
		return &SliceV{a: dp.sl.a, off: dp.sl.off, soff: dp.sl.soff, n: n, cap: dp.sl.cap}
	case "ssa:wrapnilchk":
		if p, ok := args[0].(Ptr); ok && p.p == nil {
			in.rtCheck(ts.True, "value method called using nil pointer")
		}
		return args[0]
	}
	abortf("unsupported builtin %s", fn.Name())
	return nil
}

func (in *Interp) appendOp(s, e Value, g *Term, cc *ssa.CallCommon) Value {
	ts := in.ts
	if es, ok := e.(*Str); ok {
		e = in.strToBytes(es)
	}
	g0 := g
	return in.mapAlts(s, func(gs *Term, sv Value) Value {
		return in.mapAlts(e, func(ge *Term, ev Value) Value {
			g := ts.And(g0, gs, ge) // in-place writes only under this alternative's guard
			sl := sv.(*SliceV)
			el := ev.(*SliceV)
			if el.nilS || (el.n.IsConst() && el.n.val == 0) {
				return sl
			}
			var et types.Type
			if cc != nil {
				et = cc.Args[0].Type().Underlying().(*types.Slice).Elem()
			}
			zero := func() Value {
				if et != nil {
					return in.zero(et)
				}
				return nil
			}
			if sl.n.IsConst() && el.n.IsConst() && sl.soff == nil && el.soff == nil {
				n, m := int(sl.n.val), int(el.n.val)
				if sl.nilS {
					n = 0
				}
				if !sl.nilS && n+m <= sl.cap {
					for j := 0; j < m; j++ {
						in.store(Ptr{&sl.a[sl.off+n+j]}, el.a[el.off+j], g)
					}
					return &SliceV{a: sl.a, off: sl.off, n: ts.BV(64, uint64(n+m)), cap: sl.cap}
				}
				nc := 2 * sl.cap
				if sl.nilS {
					nc = 0
				}
				if nc < n+m {
					nc = n + m
				}
				a := make([]Value, nc)
				for i := 0; i < n; i++ {
					a[i] = copyVal(sl.a[sl.off+i])
				}
				for j := 0; j < m; j++ {
					a[n+j] = copyVal(el.a[el.off+j])
				}
				for i := n + m; i < nc; i++ {
					a[i] = zero()
				}
				return &SliceV{a: a, off: 0, n: ts.BV(64, uint64(n+m)), cap: nc}
			}
			// symbolic lengths: always a fresh backing array
			ms, me := in.maxLen(sl), in.maxLen(el)
			nc := ms + me
			a := make([]Value, nc)
			for k := 0; k < nc; k++ {
				var r Value = zero()
				// from e: index j where n == k-j
				for j := me - 1; j >= 0; j-- {
					if k-j < 0 || k-j > ms {
						continue
					}
					c := ts.Eq(sl.n, ts.BV(64, uint64(k-j)))
					if me > 0 && !el.n.IsConst() {
						c = ts.And(c, ts.Cmp(OpUlt, ts.BV(64, uint64(j)), el.n))
					}
					r = in.merge(c, in.elem(el, j), r)
				}
				if k < ms {
					r = in.merge(ts.Cmp(OpUlt, ts.BV(64, uint64(k)), sl.n), in.elem(sl, k), r)
				}
				a[k] = copyVal(r)
			}
			return &SliceV{a: a, off: 0, n: ts.Bin(OpAdd, sl.n, el.n), cap: nc}
		})
	})
}

func (in *Interp) copyOp(d, s Value, g *Term) Value {
	ts := in.ts
	if ss, ok := s.(*Str); ok {
		s = in.strToBytes(ss)
	}
	dl, ok1 := d.(*SliceV)
	sl, ok2 := s.(*SliceV)
	if !ok1 || !ok2 {
		abortf("copy with %s, %s", in.show(d), in.show(s))
	}
	n := ts.Ite(ts.Cmp(OpUlt, dl.n, sl.n), dl.n, sl.n)
	md, ms := in.maxLen(dl), in.maxLen(sl)
	m := md
	if ms < m {
		m = ms
	}
	// read all sources first (overlap)
	src := make([]Value, m)
	for k := 0; k < m; k++ {
		src[k] = copyVal(in.elem(sl, k))
	}
	for k := 0; k < m; k++ {
		c := ts.And(g, ts.Cmp(OpUlt, ts.BV(64, uint64(k)), n))
		in.store(in.elemPtr(dl, k), src[k], c)
	}
	return n
}
