package main

// SMT-LIB2 text driver: one solver process kept alive, push/pop aligned definition tracking.

import (
	"bufio"
	"fmt"
	"io"
	"os"
	"os/exec"
	"strconv"
	"strings"
	"time"
)

type SolverStats struct {
	Queries   int
	Sat       int
	Unsat     int
	Unknown   int
	TimeS     float64
	MaxQueryS float64
}

type Solver struct {
	ts      *TermStore
	kind    string // z3-new | z3 | cvc5
	cmd     *exec.Cmd
	in      io.WriteCloser
	out     *bufio.Reader
	defined map[uint32]int // term id -> level at which defined
	levels  [][]uint32
	declUF  map[string]bool
	ufLevels map[int][]string
	timeout int // ms per query
	curTimeout int
	Stats   SolverStats
	log     io.Writer
	dead    bool
	seq     int // echo markers delimit the output of every query: a stray (error ...) line can never be taken for, or shift, an answer
	Errors  int
}

func solverArgv(kind string, timeoutMs int) []string {
	switch kind {
	case "z3":
		return []string{"z3", "-in", fmt.Sprintf("-t:%d", timeoutMs)}
	case "cvc5":
		return []string{"cvc5", "--incremental", "--produce-models", fmt.Sprintf("--tlimit-per=%d", timeoutMs)}
	default:
		return []string{"z3-new", "-in", fmt.Sprintf("-t:%d", timeoutMs)}
	}
}

func NewSolver(ts *TermStore, kind string, timeoutMs int) (*Solver, error) {
	s := &Solver{ts: ts, kind: kind, timeout: timeoutMs}
	if err := s.start(); err != nil {
		return nil, err
	}
	return s, nil
}

func (s *Solver) start() error {
	argv := solverArgv(s.kind, s.timeout)
	s.cmd = exec.Command(argv[0], argv[1:]...)
	in, err := s.cmd.StdinPipe()
	if err != nil {
		return err
	}
	out, err := s.cmd.StdoutPipe()
	if err != nil {
		return err
	}
	s.cmd.Stderr = os.Stderr
	if err := s.cmd.Start(); err != nil {
		return err
	}
	s.in = in
	s.out = bufio.NewReaderSize(out, 1<<16)
	s.defined = map[uint32]int{}
	s.levels = [][]uint32{nil}
	s.declUF = map[string]bool{}
	s.dead = false
	s.curTimeout = 0
	if s.kind == "cvc5" {
		s.send("(set-logic ALL)")
	}
	s.send("(set-option :produce-models true)")
	return nil
}

func (s *Solver) Close() {
	if s.cmd != nil {
		s.in.Close()
		s.cmd.Process.Kill()
		s.cmd.Wait()
		s.cmd = nil
	}
}

func (s *Solver) send(line string) {
	if s.log != nil {
		fmt.Fprintln(s.log, line)
	}
	io.WriteString(s.in, line)
	io.WriteString(s.in, "\n")
}

func (s *Solver) Push() {
	s.send("(push 1)")
	s.levels = append(s.levels, nil)
}

func (s *Solver) Pop() {
	if len(s.levels) <= 1 {
		panic("solver pop below base")
	}
	s.send("(pop 1)")
	top := s.levels[len(s.levels)-1]
	for _, id := range top {
		delete(s.defined, id)
	}
	lv := len(s.levels) - 1
	for _, k := range s.ufLevels[lv] {
		delete(s.declUF, k)
	}
	delete(s.ufLevels, lv)
	s.levels = s.levels[:len(s.levels)-1]
}

// PopTo pops until depth levels remain above base.
func (s *Solver) PopTo(depth int) {
	for len(s.levels)-1 > depth {
		s.Pop()
	}
}

func (s *Solver) Depth() int { return len(s.levels) - 1 }

func (s *Solver) markDefined(id uint32) {
	lv := len(s.levels) - 1
	s.defined[id] = lv
	s.levels[lv] = append(s.levels[lv], id)
}

// define emits declarations/definitions for every sub-term not yet known to the solver.
func (s *Solver) define(t *Term) {
	if t.op == OpConst {
		return
	}
	if _, ok := s.defined[t.id]; ok {
		return
	}
	// iterative post-order
	type fr struct {
		t *Term
		i int
	}
	stack := []fr{{t, 0}}
	for len(stack) > 0 {
		f := &stack[len(stack)-1]
		if f.i < len(f.t.args) {
			a := f.t.args[f.i]
			f.i++
			if a.op != OpConst {
				if _, ok := s.defined[a.id]; !ok {
					stack = append(stack, fr{a, 0})
				}
			}
			continue
		}
		x := f.t
		stack = stack[:len(stack)-1]
		if _, ok := s.defined[x.id]; ok {
			continue
		}
		switch x.op {
		case OpVar:
			s.send(fmt.Sprintf("(declare-const %s %s)", smtSym(x.name), sortName(x.w)))
		case OpUF:
			// UF declarations are global-ish: track by name at the level of first use
			key := "uf:" + x.name
			if !s.declUF[key] {
				var sb strings.Builder
				fmt.Fprintf(&sb, "(declare-fun %s (", smtSym(x.name))
				for i, a := range x.args {
					if i > 0 {
						sb.WriteString(" ")
					}
					sb.WriteString(sortName(a.w))
				}
				fmt.Fprintf(&sb, ") %s)", sortName(x.w))
				s.send(sb.String())
				s.ufLevel(key)
			}
			s.send(fmt.Sprintf("(define-fun t%d () %s %s)", x.id, sortName(x.w), x.body()))
		default:
			s.send(fmt.Sprintf("(define-fun t%d () %s %s)", x.id, sortName(x.w), x.body()))
		}
		s.markDefined(x.id)
	}
}

// UF declarations made inside a push scope vanish at pop; remember the level.
func (s *Solver) ufLevel(key string) {
	s.declUF[key] = true
	lv := len(s.levels) - 1
	if s.ufLevels == nil {
		s.ufLevels = map[int][]string{}
	}
	s.ufLevels[lv] = append(s.ufLevels[lv], key)
}

func (s *Solver) Assert(t *Term) {
	if t.IsTrue() {
		return
	}
	s.define(t)
	s.send("(assert " + t.ref() + ")")
}

type Result int

const (
	Unsat Result = iota
	Sat
	Unknown
)

func (r Result) String() string { return [...]string{"unsat", "sat", "unknown"}[r] }

func (s *Solver) readLine() (string, error) {
	line, err := s.out.ReadString('\n')
	return strings.TrimSpace(line), err
}

func (s *Solver) limit() int {
	if s.curTimeout > 0 {
		return s.curTimeout
	}
	return s.timeout
}

// SetQueryTimeout changes the soft per-query limit for subsequent checks (z3 only).
func (s *Solver) SetQueryTimeout(ms int) {
	if s.kind == "cvc5" || ms == s.curTimeout {
		return
	}
	s.curTimeout = ms
	s.send(fmt.Sprintf("(set-option :timeout %d)", ms))
}

func (s *Solver) Check() Result {
	if s.dead {
		return Unknown
	}
	t0 := time.Now()
	s.seq++
	marker := fmt.Sprintf("vt-done-%d", s.seq)
	s.send("(check-sat)")
	s.send("(echo \"" + marker + "\")")
	res := Unknown
	done := make(chan struct{})
	var answer string
	sawError := ""
	var err error
	go func() {
		// everything up to the marker belongs to this query (and to the commands sent since the previous one)
		for {
			var line string
			line, err = s.readLine()
			if err != nil || strings.Contains(line, marker) {
				break
			}
			switch {
			case line == "sat" || line == "unsat" || line == "unknown" || line == "timeout":
				if answer == "" {
					answer = line
				}
			case strings.HasPrefix(line, "(error"):
				if sawError == "" {
					sawError = line
				}
			}
		}
		close(done)
	}()
	select {
	case <-done:
	case <-time.After(time.Duration(s.limit())*time.Millisecond + 20*time.Second):
		// solver ignored its own limit: kill it; session state is lost
		s.cmd.Process.Kill()
		<-done
		s.dead = true
		err = fmt.Errorf("hard timeout")
	}
	switch {
	case err != nil:
		s.dead = true
	case sawError != "":
		// some command of this query (push, a definition, an assertion, check-sat itself) was rejected or
		// cancelled: the session no longer holds what we think it holds. Inconclusive, and start over.
		fmt.Fprintln(os.Stderr, "solver error:", sawError)
		s.Errors++
		s.cmd.Process.Kill()
		s.dead = true
	case answer == "sat":
		res = Sat
	case answer == "unsat":
		res = Unsat
	}
	dt := time.Since(t0).Seconds()
	s.Stats.Queries++
	s.Stats.TimeS += dt
	if dt > s.Stats.MaxQueryS {
		s.Stats.MaxQueryS = dt
	}
	switch res {
	case Sat:
		s.Stats.Sat++
	case Unsat:
		s.Stats.Unsat++
	default:
		s.Stats.Unknown++
	}
	return res
}

// CheckWith checks satisfiability of the current assertions plus extra, without keeping extra.
func (s *Solver) CheckWith(extra ...*Term) Result {
	if s.dead {
		return Unknown
	}
	s.Push()
	for _, e := range extra {
		s.Assert(e)
	}
	r := s.Check()
	if !s.dead {
		s.Pop()
	}
	return r
}

// Model returns values of the given variables after a sat answer.
func (s *Solver) Model(vars []*Term) map[string]uint64 {
	m := map[string]uint64{}
	if s.dead || len(vars) == 0 {
		return m
	}
	var known []*Term
	for _, v := range vars {
		if _, ok := s.defined[v.id]; ok {
			known = append(known, v)
		}
	}
	for i := 0; i < len(known); i += 200 {
		j := i + 200
		if j > len(known) {
			j = len(known)
		}
		var sb strings.Builder
		sb.WriteString("(get-value (")
		for _, v := range known[i:j] {
			sb.WriteString(v.ref() + " ")
		}
		sb.WriteString("))")
		s.send(sb.String())
		s.seq++
		marker := fmt.Sprintf("vt-done-%d", s.seq)
		s.send("(echo \"" + marker + "\")")
		var txt strings.Builder
		for {
			line, err := s.out.ReadString('\n')
			if err != nil {
				s.dead = true
				break
			}
			if strings.Contains(line, marker) {
				break
			}
			txt.WriteString(line)
		}
		if strings.Contains(txt.String(), "(error") {
			fmt.Fprintln(os.Stderr, "solver error in get-value:", strings.TrimSpace(txt.String())[:min(200, len(strings.TrimSpace(txt.String())))])
			s.Errors++
			s.cmd.Process.Kill()
			s.dead = true
			return m
		}
		parseValues(txt.String(), known[i:j], m)
	}
	return m
}

func (s *Solver) readSexp() string {
	depth := 0
	var sb strings.Builder
	started := false
	for {
		line, err := s.out.ReadString('\n')
		sb.WriteString(line)
		inBar := false
		for _, c := range line {
			if c == '|' {
				inBar = !inBar
			}
			if inBar {
				continue
			}
			if c == '(' {
				depth++
				started = true
			} else if c == ')' {
				depth--
			}
		}
		if err != nil || (started && depth <= 0) {
			break
		}
	}
	return sb.String()
}

func parseValues(txt string, vars []*Term, m map[string]uint64) {
	// tokens: ((name value) (name value) ...)
	toks := tokenize(txt)
	byRef := map[string]*Term{}
	for _, v := range vars {
		byRef[v.ref()] = v
	}
	for i := 0; i+1 < len(toks); i++ {
		if v, ok := byRef[toks[i]]; ok {
			val := toks[i+1]
			var x uint64
			switch {
			case val == "true":
				x = 1
			case val == "false":
				x = 0
			case strings.HasPrefix(val, "#x"):
				x, _ = strconv.ParseUint(val[2:], 16, 64)
			case strings.HasPrefix(val, "#b"):
				x, _ = strconv.ParseUint(val[2:], 2, 64)
			case val == "(" && i+3 < len(toks) && toks[i+2] == "_" && strings.HasPrefix(toks[i+3], "bv"):
				x, _ = strconv.ParseUint(toks[i+3][2:], 10, 64)
			}
			m[v.name] = x
			i++
		}
	}
}

func tokenize(s string) []string {
	var toks []string
	i := 0
	for i < len(s) {
		c := s[i]
		switch {
		case c == '(' || c == ')':
			toks = append(toks, string(c))
			i++
		case c == ' ' || c == '\n' || c == '\t' || c == '\r':
			i++
		case c == '|':
			j := i + 1
			for j < len(s) && s[j] != '|' {
				j++
			}
			toks = append(toks, s[i:j+1])
			i = j + 1
		default:
			j := i
			for j < len(s) && !strings.ContainsRune("() \n\t\r", rune(s[j])) {
				j++
			}
			toks = append(toks, s[i:j])
			i = j
		}
	}
	return toks
}
