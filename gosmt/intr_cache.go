package main

// Library models added for the cache group (C08/C10/C11).

import (
	"go/types"

	"golang.org/x/tools/go/ssa"
)

func init() {
	anyT := types.NewInterfaceType(nil, nil)
	mt := types.NewMap(anyT, anyT)
	smap := func(in *Interp, recv Value) *MapObj {
		o := in.syncOf(recv)
		if o.m == nil {
			in.syncMut(o)
			o.m = &MapObj{index: map[string]int{}, typ: types.NewMap(anyT, anyT)}
		}
		return o.m
	}
	// sync.Map.CompareAndDelete: delete the entry iff it is present with an equal value (same contents model as
	// the other sync.Map methods in syncmodel.go; the real one walks internal/sync.HashTrieMap via abi.TypeOf).
	reg("(*sync.Map).CompareAndDelete", func(in *Interp, fn *ssa.Function, a []Value, g *Term) Value {
		m := smap(in, a[0])
		v, ok := in.mapGet(m, mt, a[1])
		eq := in.ts.And(ok, in.equal(anyT, v, a[2]))
		in.mapDelete(m, a[1], in.ts.And(g, eq))
		return eq
	})
}
