package main

import (
	"fmt"
	"go/types"
	"strings"

	"golang.org/x/tools/go/ssa"
)

// Value is one of:
//
//	*Term        bool / integer of the Go type's exact width
//	Float        concrete float
//	Complex      unsupported (abort)
//	*Str         string
//	Ptr          pointer (p == nil: nil pointer)
//	Struct       []Value, mutable in memory, copied on load
//	Array        []Value
//	*SliceV      slice
//	*MapObj      map (nil *MapObj = nil map)
//	Iface        interface value
//	*Closure, *ssa.Function, *ssa.Builtin   function values (nil *Closure = nil func)
//	*ChanObj     channel
//	Tuple        multi-value
//	*Union       guarded alternatives of any of the above
//	Opaque       value produced by un-modelled code (lenient init); any use aborts
//	*RangeIter   result of ssa.Range
type Value interface{}

type Float struct {
	f float64
}

type Str struct {
	conc bool
	s    string  // valid when conc
	n    *Term   // length, BV64
	b    []*Term // bytes BV8, len = capacity bound; valid when !conc
}

type Ptr struct {
	p *Value
}

type Struct []Value
type Array []Value
type Tuple []Value

type SliceV struct {
	a   []Value // backing array from element 0 (shared)
	off int
	soff *Term // additional symbolic offset (nil = none); element i lives at a[off+soff+i]
	n   *Term // length, BV64 (may be symbolic)
	cap int
	nilS bool
}

type Iface struct {
	t types.Type // nil => nil interface
	v Value
}

type Closure struct {
	fn  *ssa.Function
	env []Value
}

type Opaque struct{ why string }

type Alt struct {
	g *Term
	v Value
}

type Union struct {
	alts []Alt
}

type mapEntry struct {
	k       Value
	v       Value
	present *Term
}

type MapObj struct {
	entries []*mapEntry
	index   map[string]int // concrete key string -> entry index
	symKeys bool           // some entry has a symbolic key
	typ     *types.Map
}

type EngineAbort struct {
	msg   string
	where string
}

func abortf(format string, args ...interface{}) {
	panic(&EngineAbort{msg: fmt.Sprintf(format, args...)})
}

// ---- strings ----

func (in *Interp) concStr(s string) *Str {
	return &Str{conc: true, s: s}
}

func (in *Interp) strLen(s *Str) *Term {
	if s.conc {
		return in.ts.BV(64, uint64(len(s.s)))
	}
	return s.n
}

// strBytes returns the byte terms (capacity) of s.
func (in *Interp) strBytes(s *Str) []*Term {
	if !s.conc {
		return s.b
	}
	out := make([]*Term, len(s.s))
	for i := 0; i < len(s.s); i++ {
		out[i] = in.ts.BV(8, uint64(s.s[i]))
	}
	return out
}

// normStr turns an all-constant symbolic string into a concrete one.
func (in *Interp) normStr(n *Term, b []*Term) *Str {
	if n.IsConst() {
		l := int(n.val)
		if l > len(b) {
			l = len(b) // infeasible path garbage
		}
		all := true
		for i := 0; i < l; i++ {
			if !b[i].IsConst() {
				all = false
				break
			}
		}
		if all {
			bs := make([]byte, l)
			for i := 0; i < l; i++ {
				bs[i] = byte(b[i].val)
			}
			return &Str{conc: true, s: string(bs)}
		}
		return &Str{n: n, b: b[:l]}
	}
	return &Str{n: n, b: b}
}

func (in *Interp) strEq(a, b *Str) *Term {
	ts := in.ts
	if a.conc && b.conc {
		return ts.Bool(a.s == b.s)
	}
	la, lb := in.strLen(a), in.strLen(b)
	ba, bb := in.strBytes(a), in.strBytes(b)
	conj := []*Term{ts.Eq(la, lb)}
	if conj[0].IsFalse() {
		return ts.False
	}
	m := len(ba)
	if len(bb) < m {
		m = len(bb)
	}
	// lengths beyond the smaller capacity are impossible for that operand
	if len(ba) > m {
		conj = append(conj, ts.Cmp(OpUle, la, ts.BV(64, uint64(m))))
	} else if len(bb) > m {
		conj = append(conj, ts.Cmp(OpUle, lb, ts.BV(64, uint64(m))))
	}
	for k := 0; k < m; k++ {
		e := ts.Eq(ba[k], bb[k])
		if e.IsTrue() {
			continue
		}
		inb := ts.Cmp(OpUlt, ts.BV(64, uint64(k)), la)
		c := ts.Implies(inb, e)
		if c.IsFalse() {
			return ts.False
		}
		conj = append(conj, c)
	}
	return ts.And(conj...)
}

// strLess: a < b lexicographically.
func (in *Interp) strLess(a, b *Str) *Term {
	ts := in.ts
	if a.conc && b.conc {
		return ts.Bool(a.s < b.s)
	}
	la, lb := in.strLen(a), in.strLen(b)
	ba, bb := in.strBytes(a), in.strBytes(b)
	m := len(ba)
	if len(bb) > m {
		m = len(bb)
	}
	// res_k: result given equal prefix of length k
	res := ts.Cmp(OpUlt, la, lb) // k beyond both caps: shorter is less
	for k := m - 1; k >= 0; k-- {
		kk := ts.BV(64, uint64(k))
		aEnd := ts.Cmp(OpUle, la, kk)
		bEnd := ts.Cmp(OpUle, lb, kk)
		var ak, bk *Term
		if k < len(ba) {
			ak = ba[k]
		} else {
			ak = ts.BV(8, 0)
			aEnd = ts.True
		}
		if k < len(bb) {
			bk = bb[k]
		} else {
			bk = ts.BV(8, 0)
			bEnd = ts.True
		}
		// if a ended: less iff b not ended; else if b ended: false; else compare bytes
		res = ts.Ite(aEnd, ts.Not(bEnd),
			ts.Ite(bEnd, ts.False,
				ts.Ite(ts.Cmp(OpUlt, ak, bk), ts.True,
					ts.Ite(ts.Cmp(OpUlt, bk, ak), ts.False, res))))
	}
	return res
}

func (in *Interp) strConcat(a, b *Str) *Str {
	ts := in.ts
	if a.conc && b.conc {
		return &Str{conc: true, s: a.s + b.s}
	}
	if a.conc && a.s == "" {
		return b
	}
	if b.conc && b.s == "" {
		return a
	}
	la, lb := in.strLen(a), in.strLen(b)
	ba, bb := in.strBytes(a), in.strBytes(b)
	n := ts.Bin(OpAdd, la, lb)
	if la.IsConst() {
		out := append(append([]*Term{}, ba[:la.val]...), bb...)
		return in.normStr(n, out)
	}
	out := make([]*Term, len(ba)+len(bb))
	for k := range out {
		// k < la ? ba[k] : bb[k-la]
		kk := ts.BV(64, uint64(k))
		var fromB *Term = ts.BV(8, 0)
		// select bb at k-la: la can be 0..min(k,len(ba))
		for j := len(bb) - 1; j >= 0; j-- {
			if k-j < 0 || k-j > len(ba) {
				continue
			}
			fromB = ts.Ite(ts.Eq(la, ts.BV(64, uint64(k-j))), bb[j], fromB)
		}
		if k < len(ba) {
			out[k] = ts.Ite(ts.Cmp(OpUlt, kk, la), ba[k], fromB)
		} else {
			out[k] = fromB
		}
	}
	return in.normStr(n, out)
}

// selectByte returns b[i] as an ite chain (0 when out of range).
func (in *Interp) selectByte(b []*Term, i *Term) *Term {
	ts := in.ts
	if i.IsConst() {
		if i.val < uint64(len(b)) {
			return b[i.val]
		}
		return ts.BV(8, 0)
	}
	r := ts.BV(8, 0)
	for k := len(b) - 1; k >= 0; k-- {
		r = ts.Ite(ts.Eq(i, ts.BV(i.w, uint64(k))), b[k], r)
	}
	return r
}

// strSlice: s[lo:hi] (bounds already checked by caller).
func (in *Interp) strSlice(s *Str, lo, hi *Term) *Str {
	ts := in.ts
	if s.conc && lo.IsConst() && hi.IsConst() {
		l, h := int(lo.val), int(hi.val)
		if l < 0 || h > len(s.s) || l > h {
			return in.concStr("")
		}
		return in.concStr(s.s[l:h])
	}
	b := in.strBytes(s)
	n := ts.Bin(OpSub, hi, lo)
	if lo.IsConst() {
		l := int(lo.val)
		if l > len(b) {
			l = len(b)
		}
		rest := b[l:]
		if hi.IsConst() && int(hi.val) >= l && int(hi.val) <= len(b) {
			rest = b[l:hi.val]
		}
		return in.normStr(n, rest)
	}
	out := make([]*Term, len(b))
	for k := range out {
		out[k] = in.selectByte(b, ts.Bin(OpAdd, lo, ts.BV(64, uint64(k))))
	}
	return in.normStr(n, out)
}

// ---- copy / zero ----

func copyVal(v Value) Value {
	switch v := v.(type) {
	case Struct:
		out := make(Struct, len(v))
		for i, f := range v {
			out[i] = copyVal(f)
		}
		return out
	case Array:
		out := make(Array, len(v))
		for i, f := range v {
			out[i] = copyVal(f)
		}
		return out
	case *Union:
		// alternatives may contain aggregates
		out := &Union{alts: make([]Alt, len(v.alts))}
		for i, a := range v.alts {
			out.alts[i] = Alt{a.g, copyVal(a.v)}
		}
		return out
	}
	return v
}

func intWidth(t types.Type) (w uint8, signed bool, ok bool) {
	b, isB := t.Underlying().(*types.Basic)
	if !isB {
		return 0, false, false
	}
	switch b.Kind() {
	case types.Int8:
		return 8, true, true
	case types.Int16:
		return 16, true, true
	case types.Int32:
		return 32, true, true
	case types.Int64, types.Int, types.UntypedInt, types.UntypedRune:
		return 64, true, true
	case types.Uint8:
		return 8, false, true
	case types.Uint16:
		return 16, false, true
	case types.Uint32:
		return 32, false, true
	case types.Uint64, types.Uint, types.Uintptr:
		return 64, false, true
	}
	if b.Kind() == types.UntypedRune {
		return 32, true, true
	}
	return 0, false, false
}

func (in *Interp) zero(t types.Type) Value {
	switch t := t.(type) {
	case *types.Named, *types.Alias:
		return in.zero(t.Underlying())
	case *types.TypeParam:
		abortf("zero of type parameter %s", t)
	case *types.Basic:
		if t.Kind() == types.UntypedNil {
			return Ptr{}
		}
		if w, _, ok := intWidth(t); ok {
			return in.ts.BV(w, 0)
		}
		switch t.Kind() {
		case types.Bool, types.UntypedBool:
			return in.ts.False
		case types.Float32, types.Float64, types.UntypedFloat:
			return Float{0}
		case types.String, types.UntypedString:
			return in.concStr("")
		case types.UnsafePointer:
			return Ptr{}
		}
		abortf("zero of basic type %s", t)
	case *types.Pointer:
		return Ptr{}
	case *types.Struct:
		s := make(Struct, t.NumFields())
		for i := range s {
			s[i] = in.zero(t.Field(i).Type())
		}
		return s
	case *types.Array:
		a := make(Array, t.Len())
		for i := range a {
			a[i] = in.zero(t.Elem())
		}
		return a
	case *types.Slice:
		return &SliceV{nilS: true, n: in.ts.BV(64, 0)}
	case *types.Map:
		return (*MapObj)(nil)
	case *types.Interface:
		return Iface{}
	case *types.Signature:
		return (*Closure)(nil)
	case *types.Chan:
		return (*ChanObj)(nil)
	case *types.Tuple:
		if t.Len() == 1 {
			return in.zero(t.At(0).Type())
		}
		tu := make(Tuple, t.Len())
		for i := range tu {
			tu[i] = in.zero(t.At(i).Type())
		}
		return tu
	}
	abortf("zero of type %T %s", t, t)
	return nil
}

// ---- merging ----

func sameValue(a, b Value) bool {
	switch a := a.(type) {
	case *Term:
		b, ok := b.(*Term)
		return ok && a == b
	case Float:
		b, ok := b.(Float)
		return ok && (a.f == b.f || (a.f != a.f && b.f != b.f))
	case *Str:
		b, ok := b.(*Str)
		if !ok {
			return false
		}
		if a == b {
			return true
		}
		return a.conc && b.conc && a.s == b.s
	case Ptr:
		b, ok := b.(Ptr)
		return ok && a.p == b.p
	case *SliceV:
		b, ok := b.(*SliceV)
		if !ok {
			return false
		}
		if a == b {
			return true
		}
		if a.nilS || b.nilS {
			return a.nilS && b.nilS
		}
		return sameBacking(a.a, b.a) && a.off == b.off && a.soff == b.soff && a.n == b.n && a.cap == b.cap
	case *MapObj:
		b, ok := b.(*MapObj)
		return ok && a == b
	case *ChanObj:
		b, ok := b.(*ChanObj)
		return ok && a == b
	case *Closure:
		b, ok := b.(*Closure)
		return ok && a == b
	case *ssa.Function:
		b, ok := b.(*ssa.Function)
		return ok && a == b
	case *ssa.Builtin:
		b, ok := b.(*ssa.Builtin)
		return ok && a == b
	case Iface:
		b, ok := b.(Iface)
		if !ok {
			return false
		}
		if a.t == nil || b.t == nil {
			return a.t == nil && b.t == nil
		}
		return identicalT(a.t, b.t) && sameValue(a.v, b.v)
	case Struct:
		b, ok := b.(Struct)
		if !ok || len(a) != len(b) {
			return false
		}
		for i := range a {
			if !sameValue(a[i], b[i]) {
				return false
			}
		}
		return true
	case Array:
		b, ok := b.(Array)
		if !ok || len(a) != len(b) {
			return false
		}
		for i := range a {
			if !sameValue(a[i], b[i]) {
				return false
			}
		}
		return true
	case Tuple:
		b, ok := b.(Tuple)
		if !ok || len(a) != len(b) {
			return false
		}
		for i := range a {
			if !sameValue(a[i], b[i]) {
				return false
			}
		}
		return true
	case nil:
		return b == nil
	}
	return false
}

func identicalT(a, b types.Type) bool {
	if isPseudoType(a) || isPseudoType(b) {
		return a == b
	}
	return types.Identical(a, b)
}

func isPseudoType(t types.Type) bool {
	switch t.(type) {
	case *noopType, *reflType:
		return true
	}
	return false
}

func sameBacking(a, b []Value) bool {
	if len(a) == 0 || len(b) == 0 {
		return len(a) == 0 && len(b) == 0
	}
	return &a[0] == &b[0]
}

// merge returns the value "if c then a else b".
func (in *Interp) merge(c *Term, a, b Value) Value {
	if c.IsTrue() {
		return a
	}
	if c.IsFalse() {
		return b
	}
	if a == nil {
		return b
	}
	if b == nil {
		return a
	}
	if sameValue(a, b) {
		return a
	}
	ts := in.ts
	switch x := a.(type) {
	case *Term:
		if y, ok := b.(*Term); ok && x.w == y.w {
			return ts.Ite(c, x, y)
		}
	case *Str:
		if y, ok := b.(*Str); ok {
			bx, by := in.strBytes(x), in.strBytes(y)
			m := len(bx)
			if len(by) > m {
				m = len(by)
			}
			out := make([]*Term, m)
			z := ts.BV(8, 0)
			for k := range out {
				p, q := z, z
				if k < len(bx) {
					p = bx[k]
				}
				if k < len(by) {
					q = by[k]
				}
				out[k] = ts.Ite(c, p, q)
			}
			return in.normStr(ts.Ite(c, in.strLen(x), in.strLen(y)), out)
		}
	case Struct:
		if y, ok := b.(Struct); ok && len(x) == len(y) {
			out := make(Struct, len(x))
			for i := range x {
				out[i] = in.merge(c, x[i], y[i])
			}
			return out
		}
	case Array:
		if y, ok := b.(Array); ok && len(x) == len(y) {
			out := make(Array, len(x))
			for i := range x {
				out[i] = in.merge(c, x[i], y[i])
			}
			return out
		}
	case Tuple:
		if y, ok := b.(Tuple); ok && len(x) == len(y) {
			out := make(Tuple, len(x))
			for i := range x {
				out[i] = in.merge(c, x[i], y[i])
			}
			return out
		}
	case *SliceV:
		if y, ok := b.(*SliceV); ok && !x.nilS && !y.nilS && sameBacking(x.a, y.a) && x.off == y.off && x.soff == y.soff && x.cap == y.cap && len(x.a) > 0 {
			return &SliceV{a: x.a, off: x.off, soff: x.soff, n: ts.Ite(c, x.n, y.n), cap: x.cap}
		}
		// same backing array, different offsets: exact, through a symbolic offset
		if y, ok := b.(*SliceV); ok && !x.nilS && !y.nilS && sameBacking(x.a, y.a) && len(x.a) > 0 {
			ox, oy := ts.BV(64, uint64(x.off)), ts.BV(64, uint64(y.off))
			if x.soff != nil {
				ox = ts.Bin(OpAdd, ox, x.soff)
			}
			if y.soff != nil {
				oy = ts.Bin(OpAdd, oy, y.soff)
			}
			cp := x.cap + x.off
			if y.cap+y.off > cp {
				cp = y.cap + y.off
			}
			if cp > len(x.a) {
				cp = len(x.a)
			}
			return &SliceV{a: x.a, off: 0, soff: ts.Ite(c, ox, oy), n: ts.Ite(c, x.n, y.n), cap: cp}
		}
		// two scalar slices with different backing arrays: merge by value into a fresh array
		// (aliasing with the originals is given up; recorded as an engine approximation). Only done
		// under pressure (in.copyMerge), i.e. when the guarded union would otherwise grow too large.
		if y, ok := b.(*SliceV); ok && in.copyMerge && !x.nilS && !y.nilS {
			mx, my := in.maxLen(x), in.maxLen(y)
			if w, ok := in.scalarElems(x, mx); ok {
				if w2, ok2 := in.scalarElems(y, my); ok2 && (w == w2 || w == 255 || w2 == 255) && !(w == 255 && w2 == 255) {
					if w == 255 {
						w = w2
					}
					m := mx
					if my > m {
						m = my
					}
					arr := make([]Value, m)
					for k := 0; k < m; k++ {
						var p, q *Term = ts.BV(w, 0), ts.BV(w, 0)
						if k < mx {
							p = in.elem(x, k).(*Term)
						}
						if k < my {
							q = in.elem(y, k).(*Term)
						}
						arr[k] = ts.Ite(c, p, q)
					}
					in.stubLog["engine:merge of distinct scalar slices copies (aliasing dropped)"]++
					return &SliceV{a: arr, n: ts.Ite(c, x.n, y.n), cap: m}
				}
			}
		}
	case Iface:
		if y, ok := b.(Iface); ok && x.t != nil && y.t != nil && identicalT(x.t, y.t) {
			// merge payloads when they are scalars of the same shape
			switch x.v.(type) {
			case *Term, *Str, Struct:
				m := in.merge(c, x.v, y.v)
				if _, isU := m.(*Union); !isU {
					return Iface{t: x.t, v: m}
				}
			}
		}
	}
	// guarded union
	var alts []Alt
	add := func(g *Term, v Value) {
		if g.IsFalse() {
			return
		}
		for i := range alts {
			if sameValue(alts[i].v, v) {
				alts[i].g = ts.Or(alts[i].g, g)
				return
			}
		}
		if sv, ok := v.(*SliceV); ok && !sv.nilS {
			for i := range alts {
				if ev, ok := alts[i].v.(*SliceV); ok && !ev.nilS && sameBacking(sv.a, ev.a) {
					if m := in.merge(g, v, alts[i].v); m != nil {
						if _, isU := m.(*Union); !isU {
							alts[i] = Alt{ts.Or(alts[i].g, g), m}
							return
						}
					}
				}
			}
		}
		alts = append(alts, Alt{g, v})
	}
	if u, ok := a.(*Union); ok {
		for _, al := range u.alts {
			add(ts.And(c, al.g), al.v)
		}
	} else {
		add(c, a)
	}
	nc := ts.Not(c)
	if u, ok := b.(*Union); ok {
		for _, al := range u.alts {
			add(ts.And(nc, al.g), al.v)
		}
	} else {
		add(nc, b)
	}
	if len(alts) > 6 && !in.copyMerge {
		// under pressure: fold scalar slices with distinct backing arrays by value
		in.copyMerge = true
		var out []Alt
		for _, a := range alts {
			done := false
			if sv, ok := a.v.(*SliceV); ok && !sv.nilS {
				for i := range out {
					if ev, ok := out[i].v.(*SliceV); ok && !ev.nilS {
						if m := in.merge(a.g, a.v, out[i].v); m != nil {
							if _, isU := m.(*Union); !isU {
								out[i] = Alt{ts.Or(out[i].g, a.g), m}
								done = true
								break
							}
						}
					}
				}
			}
			if !done {
				out = append(out, a)
			}
		}
		in.copyMerge = false
		alts = out
	}
	if len(alts) == 1 {
		return alts[0].v
	}
	if len(alts) > in.maxUnion {
		abortf("guarded union with %d alternatives (limit %d)", len(alts), in.maxUnion)
	}
	return &Union{alts: alts}
}

// scalarElems reports whether the first n elements are all *Term of one width (255 = empty).
func (in *Interp) scalarElems(s *SliceV, n int) (uint8, bool) {
	w := uint8(255)
	for k := 0; k < n; k++ {
		t, ok := in.elem(s, k).(*Term)
		if !ok || t.w == 0 {
			return 0, false
		}
		if w == 255 {
			w = t.w
		} else if w != t.w {
			return 0, false
		}
	}
	return w, true
}

// alts enumerates the guarded alternatives of v.
func (in *Interp) alts(v Value) []Alt {
	if u, ok := v.(*Union); ok {
		return u.alts
	}
	return []Alt{{in.ts.True, v}}
}

// mapAlts applies f to each alternative and merges the results.
func (in *Interp) mapAlts(v Value, f func(g *Term, v Value) Value) Value {
	u, ok := v.(*Union)
	if !ok {
		return f(in.ts.True, v)
	}
	var r Value
	for i := len(u.alts) - 1; i >= 0; i-- {
		a := u.alts[i]
		x := f(a.g, a.v)
		if r == nil {
			r = x
		} else {
			r = in.merge(a.g, x, r)
		}
	}
	return r
}

// ---- display ----

func (in *Interp) show(v Value) string {
	switch v := v.(type) {
	case nil:
		return "<undef>"
	case *Term:
		return in.ts.Show(v)
	case Float:
		return fmt.Sprint(v.f)
	case *Str:
		if v.conc {
			return fmt.Sprintf("%q", v.s)
		}
		return fmt.Sprintf("str(len=%s cap=%d)", in.ts.Show(v.n), len(v.b))
	case Ptr:
		if v.p == nil {
			return "nil"
		}
		return fmt.Sprintf("&%p", v.p)
	case Struct:
		var parts []string
		for _, f := range v {
			parts = append(parts, in.show(f))
		}
		return "{" + strings.Join(parts, ", ") + "}"
	case Array:
		return fmt.Sprintf("array[%d]", len(v))
	case *SliceV:
		if v.nilS {
			return "nil-slice"
		}
		return fmt.Sprintf("slice(len=%s)", in.ts.Show(v.n))
	case Iface:
		if v.t == nil {
			return "nil-iface"
		}
		return fmt.Sprintf("iface(%s:%s)", v.t, in.show(v.v))
	case Tuple:
		var parts []string
		for _, f := range v {
			parts = append(parts, in.show(f))
		}
		return "(" + strings.Join(parts, ", ") + ")"
	case *Union:
		var parts []string
		for _, a := range v.alts {
			parts = append(parts, in.ts.Show(a.g)+"→"+in.show(a.v))
		}
		return "U[" + strings.Join(parts, " | ") + "]"
	case Opaque:
		return "opaque(" + v.why + ")"
	}
	return fmt.Sprintf("%T", v)
}
