package main

// Sorting intrinsics: a bubble network of guarded compare-exchanges (stable, works for symbolic
// comparison outcomes and symbolic lengths).

import (
	"go/token"
	"go/types"

	"golang.org/x/tools/go/ssa"
)

// sortSlice sorts sl in place; less(i, j) compares the elements currently at positions i and j.
func (in *Interp) sortSlice(sl *SliceV, g *Term, less func(i, j int) *Term) {
	ts := in.ts
	n := in.maxLen(sl)
	for pass := 0; pass < n-1; pass++ {
		swapped := false
		for j := 0; j < n-1-pass; j++ {
			c := less(j+1, j)
			if c.IsFalse() {
				continue
			}
			if !sl.n.IsConst() {
				c = ts.And(c, ts.Cmp(OpUlt, ts.BV(64, uint64(j+1)), sl.n))
			}
			c = ts.And(g, c)
			if c.IsFalse() {
				continue
			}
			swapped = true
			pa, pb := in.elemPtr(sl, j), in.elemPtr(sl, j+1)
			a, b := copyVal(in.elem(sl, j)), copyVal(in.elem(sl, j+1))
			in.store(pa, b, c)
			in.store(pb, a, c)
		}
		if !swapped {
			break
		}
	}
}

func init() {
	sliceLess := func(in *Interp, fn *ssa.Function, a []Value, g *Term) Value {
		itf, ok := a[0].(Iface)
		if !ok || itf.t == nil {
			in.rtCheck(in.ts.True, "sort.Slice on nil")
			return nil
		}
		sl, ok := itf.v.(*SliceV)
		if !ok {
			abortf("sort.Slice on %s", in.show(itf.v))
		}
		if sl.nilS {
			return nil
		}
		in.sortSlice(sl, g, func(i, j int) *Term {
			r := in.call(a[1], []Value{in.ts.BV(64, uint64(i)), in.ts.BV(64, uint64(j))}, g, nil)
			return r.(*Term)
		})
		return nil
	}
	reg("sort.Slice", sliceLess)
	reg("sort.SliceStable", sliceLess)
	cmpSort := func(in *Interp, fn *ssa.Function, a []Value, g *Term) Value {
		sl, ok := a[0].(*SliceV)
		if !ok {
			abortf("slices.SortFunc on %s", in.show(a[0]))
		}
		if sl.nilS {
			return nil
		}
		in.sortSlice(sl, g, func(i, j int) *Term {
			r := in.call(a[1], []Value{copyVal(in.elem(sl, i)), copyVal(in.elem(sl, j))}, g, nil)
			return in.ts.Cmp(OpSlt, r.(*Term), in.ts.BV(64, 0))
		})
		return nil
	}
	reg("slices.SortFunc", cmpSort)
	reg("slices.SortStableFunc", cmpSort)
	ordered := func(in *Interp, fn *ssa.Function, a []Value, g *Term) Value {
		sl, ok := a[0].(*SliceV)
		if !ok {
			abortf("slices.Sort on %s", in.show(a[0]))
		}
		if sl.nilS {
			return nil
		}
		et := fn.Signature.Params().At(0).Type().Underlying().(*types.Slice).Elem()
		in.sortSlice(sl, g, func(i, j int) *Term {
			return in.binop(token.LSS, et, in.elem(sl, i), in.elem(sl, j), et).(*Term)
		})
		return nil
	}
	reg("slices.Sort", ordered)
	reg("sort.Strings", ordered)
	reg("sort.Ints", ordered)
	reg("sort.Sort", func(in *Interp, fn *ssa.Function, a []Value, g *Term) Value {
		itf, ok := a[0].(Iface)
		if !ok || itf.t == nil {
			in.rtCheck(in.ts.True, "sort.Sort(nil)")
			return nil
		}
		n := in.needInt(in.callMethod(itf, "Len", nil), "sort.Interface.Len()")
		for pass := 0; pass < n-1; pass++ {
			for j := 0; j < n-1-pass; j++ {
				c := in.callMethod(itf, "Less", []Value{in.ts.BV(64, uint64(j+1)), in.ts.BV(64, uint64(j))}).(*Term)
				if c.IsFalse() {
					continue
				}
				if !c.IsTrue() {
					// Swap is opaque: fork
					if !in.concretizeGuard() || !in.decide(c) {
						continue
					}
				}
				in.callMethod(itf, "Swap", []Value{in.ts.BV(64, uint64(j)), in.ts.BV(64, uint64(j+1))})
			}
		}
		return nil
	})
	reg("sort.Stable", intrinsics["sort.Sort"])
}
