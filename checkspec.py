"""Per-property harness lists (bounds per tier). Each job is one gosmt harness run.

SPEC[id] = {jobs(tier, seed) -> [job], level_text, level_note, assumptions, outside}
"""

PAR = 16
DEFAULT_UNWIND = 12
HOOKS_ENABLE = "harness files are injected with go/packages Overlay and `go test -overlay -tags verif`; nothing is written into /repo by a check"
HOOK_COMMITS = []
NOTES = "All claimed checks are bounded: evidence lists the bound vector of every harness run. Exit 3 = inconclusive (never reported as pass)."
NOT_APPLICABLE = {}

MEM = "pkg/storage/memory"
TUP = "pkg/tuple"


def J(pkg, harness, unwind=None, timeout_ms=None, max_paths=None, fork_all=False, **params):
    j = {"pkg": pkg, "harness": harness, "params": params}
    if unwind:
        j["unwind"] = unwind
    if timeout_ms:
        j["timeout_ms"] = timeout_ms
    if max_paths:
        j["max_paths"] = max_paths
    if fork_all:
        j["fork_all"] = True
    return j


def c29(tier, seed):
    q = tier == "quick"
    jobs = []
    for h in ["VerifK29cObject", "VerifK29cRelation", "VerifK29cUserID"]:
        jobs.append(J(TUP, h, len=3 if q else 5, timeout_ms=60000 if q else 300000))
        jobs.append(J(TUP, h, len=6 if q else 9, ascii=1, timeout_ms=60000 if q else 300000))
    jobs.append(J(TUP, "VerifK29aRoundTrip", obj=3, rel=1, usr=3, timeout_ms=120000))
    jobs.append(J(TUP, "VerifK29aRoundTrip", obj=4, rel=2, usr=4, ascii=1, timeout_ms=120000))
    jobs.append(J(TUP, "VerifK29aParsePrint", len=8, timeout_ms=120000))
    jobs.append(J(TUP, "VerifK29bSplitObjectRelation", o=4, r=3, timeout_ms=120000))
    jobs.append(J(TUP, "VerifK29bUserParts", len=5 if q else 7, timeout_ms=120000))
    if not q:
        jobs.append(J(TUP, "VerifK29aRoundTrip", obj=5, rel=3, usr=6, ascii=1, timeout_ms=600000))
        jobs.append(J(TUP, "VerifK29aParsePrint", len=12, ascii=1, timeout_ms=600000))
    return jobs


def c14(tier, seed):
    q = tier == "quick"
    n = 3 if q else 5
    tok = 2 if q else 3
    jobs = [
        J(MEM, "VerifK14aReadPageAnyToken", n=n, tok=tok),
        J(MEM, "VerifK14aReadPageFollow", n=n + 1),
        J(MEM, "VerifK14aListStoresAnyToken", n=n, tok=tok),
        J(MEM, "VerifK14aReadModelsAnyToken", n=n, tok=tok),
    ]
    return jobs


SPEC = {
    "C14": {
        "jobs": c14,
        "level_text": "bounded symbolic execution of the memory backend's paginated reads (ReadPage, ListStores, ReadAuthorizationModels): for every item count <= N, every page size and EVERY continuation-token byte string up to the bound the solver shows the call either rejects the token or returns the contiguous page at the (clamped) position in the documented order with the exact follow-up token; following issued tokens visits every item once. A panic on any path is a violation.",
        "level_note": "bounds: N<=3 (quick) / 5 items, tokens <= 2/3 arbitrary bytes, page size 1..N+1; memory backend only (SQL backends are query strings executed by an external engine: outside); strconv.Atoi/Itoa are the real code; trusted: engine semantics, z3",
        "assumptions": ["forged tokens outside [0,n] may be clamped (what ListStores/ReadAuthorizationModels do) but never restart the listing", "tracing (otel) calls are no-ops"],
        "outside": ["sqlite/postgres/mysql pagination", "ReadChanges token/type binding (commands layer) until K14b is registered", "data sets larger than the bound"],
    },
    "C29": {
        "jobs": c29,
        "level_text": "bounded symbolic execution of pkg/tuple's real SSA: for every byte string within the bound the solver shows the validity predicates equal an independent grammar and the print/parse/split/build functions are mutual inverses; unsat = holds for all inputs in the bound, sat = concrete string replayed natively",
        "level_note": "bounds: strings <= 3..5 arbitrary bytes / <= 6..12 ASCII bytes per field (tier dependent, listed in evidence); trusted: go/ssa, the engine's instruction semantics and UTF-8 decoder, z3",
        "assumptions": [
            "unicode.IsControl modelled as r<0x20 or 0x7f<=r<0xa0",
            "UTF-8 decoding of `range` and utf8.DecodeRuneInString is the engine's bit-vector decoder",
            "strings.Builder is modelled as an append-only byte slice",
        ],
        "outside": ["strings longer than the stated bounds"],
    },
}
