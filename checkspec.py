"""Per-property harness lists (bounds per tier). Each job is one gosmt harness run."""

PAR = 16
DEFAULT_UNWIND = 12


def J(pkg, harness, unwind=None, timeout_ms=None, max_paths=None, fork_all=False, **params):
    j = {"pkg": pkg, "harness": harness, "params": params}
    if unwind:
        j["unwind"] = unwind
    if timeout_ms:
        j["timeout_ms"] = timeout_ms
    if max_paths:
        j["max_paths"] = max_paths
    if fork_all:
        j["fork_all"] = True
    return j


def c29(tier, seed):
    T = "pkg/tuple"
    q = tier == "quick"
    jobs = []
    # grammar predicates vs. documented grammar: all byte strings (incl. invalid UTF-8) and longer ASCII
    for h in ["VerifK29cObject", "VerifK29cRelation", "VerifK29cUserID"]:
        jobs.append(J(T, h, len=3 if q else 5, timeout_ms=60000 if q else 300000))
        jobs.append(J(T, h, len=6 if q else 9, ascii=1, timeout_ms=60000 if q else 300000))
    jobs.append(J(T, "VerifK29aRoundTrip", obj=3, rel=1, usr=3, timeout_ms=120000))
    jobs.append(J(T, "VerifK29aRoundTrip", obj=4, rel=2, usr=4, ascii=1, timeout_ms=120000))
    jobs.append(J(T, "VerifK29aParsePrint", len=8, timeout_ms=120000))
    jobs.append(J(T, "VerifK29bSplitObjectRelation", o=4, r=3, timeout_ms=120000))
    jobs.append(J(T, "VerifK29bUserParts", len=5 if q else 7, timeout_ms=120000))
    if not q:
        jobs.append(J(T, "VerifK29aRoundTrip", obj=5, rel=3, usr=6, ascii=1, timeout_ms=600000))
        jobs.append(J(T, "VerifK29aParsePrint", len=12, ascii=1, timeout_ms=600000))
    return jobs


SPEC = {
    "C29": {
        "jobs": c29,
        "assumptions": [
            "unicode.IsControl modelled as r<0x20 or 0x7f<=r<0xa0 (engine self-test compares with the table for all runes)",
            "UTF-8 decoding of `range` and utf8.DecodeRuneInString is the engine's bit-vector decoder (self-tested against native)",
            "strings.Builder is modelled as an append-only byte slice",
        ],
        "outside": ["strings longer than the stated bounds", "StringToUserProto/UserProtoToString (protobuf oneof construction) are covered by VerifK29bUserProto once registered"],
    },
}
