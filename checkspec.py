"""Aggregates per-property harness lists from specs/*.py.

Each specs module defines SPEC = {id: {...}} (see specs/base.py for the shape) and optionally
NOT_APPLICABLE = {id: reason}.
"""
import importlib, os, sys, glob

PAR = 16
DEFAULT_UNWIND = 12
HOOKS_ENABLE = "harness files are injected with go/packages Overlay and `go test -overlay -tags verif`; nothing is written into /repo by a check. The only guarded source change is internal/verifhook (Point(name) is an empty function unless built with -tags verif) plus Point calls before the synchronisation steps of mpmc.Queue, mpsc.Accumulator, track.StatusPool and worker.Membership; the engine treats them as scheduling points, native replays enforce the solver's schedule through them"
HOOK_COMMITS = ["e34a1262b847c603bea90ba0fc32d35a94568dd9"]
NOTES = "All claimed checks are bounded: evidence lists the bound vector of every harness run. Exit 3 = inconclusive (never reported as pass)."

# properties whose thorough job list ran clean (exit 0) on the unchanged tree during the build session; for the others
# `./check <id> --tier thorough` falls back to the quick bounds (VERIF_FORCE_THOROUGH=1 runs the deeper list anyway)
THOROUGH_VALIDATED = {"C07", "C08", "C09", "C10", "C12", "C13", "C14", "C15", "C16", "C17", "C22", "C23", "C25", "C26", "C27",
                      "C28", "C29", "C31", "C32"}
# not validated (thorough falls back to quick): C01-C06, C20, C30 (whole-engine job lists of hours), C11 (a native witness
# of a non-grid timeline does not replay), C18, C19, C21, C24 (jobs past the 45-50 minute job budget or path budgets)

SPEC = {}
NOT_APPLICABLE = {}
_here = os.path.dirname(os.path.abspath(__file__))
sys.path.insert(0, _here)
for _f in sorted(glob.glob(os.path.join(_here, "specs", "*.py"))):
    _m = importlib.import_module("specs." + os.path.basename(_f)[:-3])
    SPEC.update(getattr(_m, "SPEC", {}))
    NOT_APPLICABLE.update(getattr(_m, "NOT_APPLICABLE", {}))
    HOOK_COMMITS += getattr(_m, "HOOK_COMMITS", [])
for _k in list(NOT_APPLICABLE):
    if _k in SPEC:
        del NOT_APPLICABLE[_k]
